#!/bin/sh
# offline setup: vendor mpmath (pure Python) for the arbitrary-precision oracles
HERE="$(cd "$(dirname "$0")" && pwd)"
if [ ! -d "$HERE/vendor/mpmath" ]; then
  /venv/bin/pip install -q --no-index --find-links /opt/veriftools/wheels --target "$HERE/vendor" mpmath || exit 1
fi
/venv/bin/python -c "import sys; sys.path.insert(0,'$HERE/vendor'); import mpmath; print('mpmath', mpmath.__version__)"
