#!/venv/bin/python
"""Run the pinned baseline test suite in a checkout of algopy and compare the set of
passing tests with /root/.vp/BASELINE.json (stable_pass).  Usage: baseline_check.py <repo-dir>
Exit 0 iff every baseline test still passes."""
import sys, os, json, subprocess, tempfile, xml.etree.ElementTree as ET
repo = os.path.abspath(sys.argv[1] if len(sys.argv) > 1 else '/repo')
base = json.load(open('/root/.vp/BASELINE.json'))
want = set(base['stable_pass'])
with tempfile.TemporaryDirectory() as td:
    xmlf = os.path.join(td, 'r.xml')
    env = dict(os.environ, PYTHONDONTWRITEBYTECODE='1')
    env.pop('ALGOPY_VERIF', None)
    p = subprocess.run(['/venv/bin/python', '-m', 'pytest', '-ra', '-q', '-p', 'no:cacheprovider', '--timeout=900',
                        '--continue-on-collection-errors', '--junitxml=' + xmlf], cwd=repo, env=env,
                       stdout=subprocess.PIPE, stderr=subprocess.STDOUT, text=True)
    passed = set()
    for tc in ET.parse(xmlf).getroot().iter('testcase'):
        if not any(ch.tag in ('failure', 'error', 'skipped') for ch in tc):
            passed.add('%s::%s' % (tc.get('classname'), tc.get('name')))
missing = sorted(want - passed)
print(p.stdout.strip().splitlines()[-1])
print('baseline tests: %d, still passing: %d, broken: %d' % (len(want), len(want & passed), len(missing)))
for m in missing[:20]:
    print('  BROKEN', m)
sys.exit(1 if missing else 0)
