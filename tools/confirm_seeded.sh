#!/bin/sh
# Confirm candidate mutants (patch.diff + demo.py) in a scratch worktree of /repo HEAD and store the confirmed ones
# under /verif/seeded/<id>/.   usage: confirm_seeded.sh <srcdir containing patch.diff demo.py notes.md> <id> <property>
SRC="$1"; ID="$2"; PROP="$3"
WT=/tmp/wt/confirm_$ID
rm -rf "$WT"; git -C /repo worktree add -q --detach "$WT" HEAD || exit 2
cd "$WT" || exit 2
res="apply=FAIL"
if git apply --3way "$SRC/patch.diff" 2>/dev/null || git apply "$SRC/patch.diff" 2>/dev/null; then
  git reset -q
  res="apply=ok"
  if /verif/tools/baseline_check.py "$WT" >/tmp/wt/confirm_$ID.base 2>&1; then res="$res baseline=ok"; else res="$res baseline=BROKEN"; fi
  PYTHONDONTWRITEBYTECODE=1 timeout 300 /venv/bin/python "$SRC/demo.py" "$WT" >/tmp/wt/confirm_$ID.with 2>&1; rc1=$?
  git diff > /tmp/wt/confirm_$ID.diff
  git checkout -q -- .
  PYTHONDONTWRITEBYTECODE=1 timeout 300 /venv/bin/python "$SRC/demo.py" "$WT" >/tmp/wt/confirm_$ID.without 2>&1; rc2=$?
  res="$res demo_with=$rc1 demo_without=$rc2"
  if [ "$rc1" != 0 ] && [ "$rc2" = 0 ] && echo "$res" | grep -q "baseline=ok"; then
    mkdir -p /verif/seeded/$ID
    cp /tmp/wt/confirm_$ID.diff /verif/seeded/$ID/patch.diff
    cp "$SRC/demo.py" /verif/seeded/$ID/demo.py
    [ -f "$SRC/notes.md" ] && cp "$SRC/notes.md" /verif/seeded/$ID/notes.md
    res="$res KEPT"
  fi
fi
cd /; git -C /repo worktree remove --force "$WT"
echo "$ID $PROP $res"
