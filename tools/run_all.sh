#!/bin/sh
# usage: tools/run_all.sh [tier]   - runs every registered check on /repo's working tree; prints one summary line each
TIER="${1:-quick}"
cd "$(dirname "$0")/.." || exit 2
rc=0
for n in 01 02 03 04 05 06 07 08 09 10 11 12 13 14 15 16 17; do
  s=$(date +%s)
  ./check C$n --tier "$TIER" > /tmp/run_all_C$n.log 2>&1; r=$?
  e=$(date +%s)
  echo "C$n exit=$r $((e-s))s $(grep -c '^VIOLATION' /tmp/run_all_C$n.log) violations, $(grep -c '^KNOWN-FINDING' /tmp/run_all_C$n.log) known; $(grep 'tier=' /tmp/run_all_C$n.log | cut -c1-160)"
  [ $r -ne 0 ] && rc=1
done
exit $rc
