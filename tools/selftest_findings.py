#!/usr/bin/env python3
"""Self-test of the known-finding machinery (kept because known_findings.json currently has no `known` entry left):
exact / wildcard signature matching, attribution matching, fixed entries suppress nothing, and the runner turns a
matched failure into a KNOWN-FINDING line (exit 0) and an unmatched one into a VIOLATION (exit 1)."""
import os, sys
sys.path.insert(0, os.path.dirname(os.path.dirname(os.path.abspath(__file__))))
from amc import findings as F

known = [{'property': 'C03', 'status': 'known', 'signature': 'C03|wrong|prog=eigh(sym(M))[1]<-M0|minD=2', 'attrib': 'instr:eigh(*[1]|D1=ok'},
         {'property': 'C03', 'status': 'known', 'signature': 'C03|crash|prog=dot(T,*'}]
assert F.match(known, 'C03|wrong|prog=eigh(sym(M))[1]<-M0|minD=2')
assert not F.match(known, 'C03|wrong|prog=eigh(sym(M))[1]<-M0|minD=1')          # same call site, different failure
assert F.match(known, 'C03|crash|prog=dot(T,V)<-T0,V0|minD=1')
assert not F.match(known, 'C03|wrong|prog=dot(T,V)<-T0,V0|minD=1')
assert F.match(known, 'C03|wrong|prog=x ; y|minD=2', ['instr:eigh(sym(M))[1]|D1=ok'])
assert not F.match(known, 'C03|wrong|prog=x ; y|minD=1', ['instr:eigh(sym(M))[1]|D1=bad'])
assert not F.match(known, 'C03|wrong|prog=[1]', [])                               # '[' is literal, only '*' is a wildcard
# the committed file: fixed entries are never loaded as suppressing entries
import json
data = json.load(open(F.PATH))
for pid in sorted(set(e['property'] for e in data['findings'])):
    loaded = F.load(pid)
    assert all(e['status'] == 'known' for e in loaded)
    assert len(loaded) == sum(1 for e in data['findings'] if e['property'] == pid and e['status'] == 'known')
fixed = [e for e in data['findings'] if e['status'] == 'fixed']
assert all(e.get('commit') and e.get('line', '').startswith('fixed: property=%s %s ' % (e['property'], e['commit'])) for e in fixed)
print('findings self-test ok: %d fixed entries, %d known entries' % (len(fixed), len(data['findings']) - len(fixed)))
