#!/usr/bin/env python3
"""Run every seeded mutant against the quick check of the property it targets (and optionally further checks).
Each mutant is applied in a scratch git worktree of /repo HEAD (outside /repo and /verif; removed afterwards) and the
check is pointed at it through ALGOPY_REPO.  Results go to seeded/<id>/meta.json and seeded/SUMMARY.md.
usage: run_seeded.py [ids...] [--also C03,C05] [--tier quick]"""
import os, sys, json, subprocess, re, time

VERIF = os.path.dirname(os.path.dirname(os.path.abspath(__file__)))
SEEDED = os.path.join(VERIF, 'seeded')


def sh(cmd, **kw):
    return subprocess.run(cmd, shell=True, stdout=subprocess.PIPE, stderr=subprocess.STDOUT, text=True, **kw)


def first_lines(notes, n=3):
    try:
        t = open(notes).read()
    except Exception:
        return ''
    m = re.search(r'(?i)(needed to manifest|trigger|need[s]? to manifest|manifest)[^\n]*\n?(.*)', t)
    return ' '.join(t.strip().split())[:700]


def main():
    args = [a for a in sys.argv[1:] if not a.startswith('--')]
    also = []
    tier = 'quick'
    for a in sys.argv[1:]:
        if a.startswith('--also='):
            also = a.split('=', 1)[1].split(',')
        if a.startswith('--tier='):
            tier = a.split('=', 1)[1]
    ids = args or sorted(d for d in os.listdir(SEEDED) if os.path.isdir(os.path.join(SEEDED, d)))
    head = sh('git -C /repo rev-parse --short HEAD').stdout.strip()
    rows = []
    for mid in ids:
        d = os.path.join(SEEDED, mid)
        prop = mid.split('_')[0]
        wt = '/tmp/wt/seedrun_%s' % mid
        sh('rm -rf %s; git -C /repo worktree prune; git -C /repo worktree add -q --detach %s HEAD' % (wt, wt))
        ap = sh('git -C %s apply %s/patch.diff' % (wt, d))
        res = {}
        if ap.returncode != 0:
            res[prop] = {'status': 'patch does not apply to %s' % head, 'output': ap.stdout[-300:]}
        else:
            for pr in [prop] + [p for p in also if p != prop]:
                t0 = time.time()
                r = sh('cd %s && ALGOPY_REPO=%s VERIF_EVIDENCE_DIR=/tmp/wt/evidence_mutants VERIF_NO_CONFIRM=1 ./check %s --tier %s' % (VERIF, wt, pr, tier))
                viol = [l for l in r.stdout.splitlines() if l.startswith('VIOLATION')]
                sigs = [re.search(r'sig=(.*?) cases=', l).group(1) for l in viol if re.search(r'sig=(.*?) cases=', l)]
                res[pr] = {'status': 'DETECTED' if (r.returncode == 1 and viol) else ('harness error' if r.returncode == 2 else 'not detected'),
                           'exit': r.returncode, 'violation_signatures': sigs[:4], 'wall_s': round(time.time() - t0, 1)}
        sh('git -C /repo worktree remove --force %s' % wt)
        meta = {
            'id': mid, 'breaks_property': prop,
            'needs_to_manifest': first_lines(os.path.join(d, 'notes.md')),
            'origin': 'written by an independent sub-agent that saw only the property text and its own scratch worktree',
            'confirmed': 'tools/confirm_seeded.sh: patch applies to /repo HEAD in a scratch worktree, tools/baseline_check.py reports all 389 baseline tests passing with the patch, demo.py exits 1 with the patch and 0 without',
            'repo_head': head,
            'ran': dict((k, 'ALGOPY_REPO=<scratch worktree with patch> ./check %s --tier %s' % (k, tier)) for k in res),
            'result': res,
        }
        json.dump(meta, open(os.path.join(d, 'meta.json'), 'w'), indent=1)
        rows.append((mid, prop, res))
        print(mid, dict((k, v['status']) for k, v in res.items()), flush=True)
    with open(os.path.join(SEEDED, 'SUMMARY.md'), 'w') as f:
        f.write('# Seeded property-breaking changes and the checks that catch them (repo HEAD %s, tier %s)\n\n' % (head, tier))
        f.write('| mutant | property | result of its own check | first violation signature |\n|---|---|---|---|\n')
        allrows = []
        for mid in sorted(os.listdir(SEEDED)):
            mp = os.path.join(SEEDED, mid, 'meta.json')
            if os.path.isfile(mp):
                m = json.load(open(mp))
                allrows.append((mid, m['breaks_property'], m['result']))
        for mid, prop, res in allrows:
            r = res.get(prop, {})
            f.write('| %s | %s | %s | %s |\n' % (mid, prop, r.get('status'), (r.get('violation_signatures') or [''])[0].replace('|', '\\|')[:110]))


if __name__ == '__main__':
    main()
