#!/usr/bin/env python3
"""Regenerate /verif/MANIFEST.json from the table below: a property is claimed iff its module
amc/props/cNN.py exists; otherwise it is listed under not_applicable with a reason."""
import os
import json

HERE = os.path.dirname(os.path.dirname(os.path.abspath(__file__)))

TECH = 'bounded-exhaustive enumeration of the input/program/history space on the real code against an independent reference model'

P = {
 'C01': dict(design='4 C01', technique='exhaustive enumeration of (function, base point, D, unisolvent coefficient grid) cells on the real kernels vs. an mpmath Taylor/Horner reference',
             text='Every overloaded elementary/special function is run on the complete unisolvent coefficient grid for each (function, base point, D) cell and on all (P, shape) deviation patterns, and compared with arbitrary-precision Taylor coefficients of f composed with x(t); agreement on the grid decides all real higher coefficients for that cell (polynomial identity), so only base points and D are bounded.',
             note='mpmath (vendored) is trusted for f^(k)(x0)/k!; base points come from a finite menu; D <= Dmax'),
 'C02': dict(design='4 C02', technique='exhaustive enumeration of operator x operand-kind x broadcast-shape x (D,P) x basis/all-tuple value space vs. exact Fraction power-series arithmetic',
             text='All operators (binary, reflected, in-place, powers) over all operand-kind and broadcastable shape pairs are evaluated on dyadic values and compared with exact rational truncated power-series arithmetic (bit-exact for ring operations); bilinearity makes basis pairs decisive.',
             note='Fraction reference model; shapes up to 3 dimensions; D <= 6'),
 'C03': dict(design='4 C03', technique='explicit enumeration of all type-correct straight-line programs up to a depth bound, each traced and reverse-swept on the real tracer, against a forward-mode-only oracle (2D-coefficient propagation)',
             text='Every program over the instruction set up to the depth bound is recorded, swept in reverse with dense and (depth 1) full-basis seeds at several (D,P) curves with different base points per direction, and the adjoint identity is checked against forward propagation alone; exceptions are classified (unsupported vs crash).',
             note='forward mode trusted up to 2D coefficients (C01/C02/C07/C08 check it); depth <= 3, n = 3, D <= 4'),
 'C04': dict(design='4 C04', technique='explicit enumeration of polynomial programs x recording kind/point x evaluation point x driver, real drivers vs. exact symbolic (Fraction polynomial) derivatives',
             text='All drivers of a recorded graph are called for every generated polynomial program, recording kind, recording point and evaluation point and compared with exact analytic derivatives obtained by running the same instruction list on Fraction polynomials; smooth programs are compared with forward-mode drivers.',
             note='exact polynomial arithmetic reference; program depth and N, M bounded'),
 'C05': dict(design='4 C05', technique='explicit-state search over replay histories (input kinds/degrees in any order) of every enumerated program on the real tracer vs. direct execution of the program',
             text='For every program and recording kind, all replay histories over the input-kind menu up to the depth bound are executed on the real graph; after every replay all dependent values are compared with running the instruction list directly, and the recorded graph structure is compared with the interpreter\'s own operation log.',
             note='direct execution on ndarray/UTPM is the reference (forward mode itself is checked by C01/C02/C07)'),
 'C06': dict(design='4 C06', technique='explicit-state breadth-first search over call histories (forward evaluations, reverse sweeps, drivers, second graph) of the real CGraph with state hashing; every transition compared with a fresh single-use graph',
             text='The state graph of each recorded program under the event alphabet is explored breadth-first with canonical hashing of all mutable graph state; each transition\'s return value is compared with the same call on a freshly recorded single-use graph, and node values are required to be bit-identical across a reverse sweep. If the frontier empties the result covers histories of any length.',
             note='state key = bytes + aliasing structure of every node value/adjoint/saved store; event alphabet and depth bound finite'),
 'C07': dict(design='4 C07', technique='exhaustive enumeration of small integer base matrices (all pivot patterns) x rank combinations x operand kinds x coefficient deviations vs. exact rational residuals / Leibniz determinant',
             text='dot/outer/inv/solve/det/logdet/trace/expm are run on every admissible rank/kind combination and on all small-integer nonsingular base matrices; results are checked by exact rational residuals of the defining identities and exact determinant series.',
             note='Fraction reference; N <= 3, D <= 6'),
 'C08': dict(design='4 C08', technique='exhaustive enumeration of shapes x D x P x base-matrix menus x eigenvalue split signatures vs. exact rational residuals of the defining equations',
             text='Every factorization is run over all shapes, degrees, direction counts, base matrix menus (including every eigenvalue multiplicity/splitting pattern) and its defining polynomial identities are evaluated in exact rational arithmetic on the float outputs.',
             note='residual bound 64 eps x cond x majorant; N <= 4'),
 'C09': dict(design='4 C09', technique='exhaustive enumeration of all monomials up to a degree in N variables x integer points x directions; forward drivers vs. exact partial derivatives (linearity makes monomials decisive)',
             text='All forward-mode seed/extract driver pairs are evaluated on every monomial up to the degree bound (complete for polynomials by linearity) at all integer points of a box and compared with exact partial derivatives.',
             note='N <= 5, degree <= 4, tensor order <= 4'),
 'C10': dict(design='4 C10', technique='exhaustive enumeration of the introspected function catalogue x argument shapes/kinds x (D,P), and all sign patterns for comparisons, vs. NumPy/SciPy itself',
             text='Every catalogued public function/operator is called on all admissible shapes/kinds and compared slice-wise with the NumPy/SciPy function of the same name; comparison operators are checked on all sign patterns.',
             note='NumPy/SciPy are the executable specification'),
 'C11': dict(design='4 C11', technique='exhaustive enumeration of catalogue ops and enumerated programs with P>1 and different base points per direction; metamorphic comparison with single-direction runs (forward and reverse)',
             text='Every operation and enumerated program is run with several directions having different base points and compared per direction with the single-direction run, in forward and reverse mode.',
             note='metamorphic oracle; tolerance 1e-12 x majorant'),
 'C12': dict(design='4 C12', technique='exhaustive enumeration of catalogue ops and enumerated programs x all (D\', D) pairs; metamorphic comparison of truncated runs (forward and reverse)',
             text='Every operation and enumerated program is run at degree D and at every smaller degree D\' on truncated inputs; low-order coefficients must coincide (forward and reverse).',
             note='metamorphic oracle; D <= Dmax'),
 'C13': dict(design='4 C13', technique='exhaustive structural enumeration of basic-index expressions, shapes, axes and repetitions vs. NumPy applied per coefficient slice, including memory-sharing structure',
             text='All index expressions of the grammar and all shape/axis/reps arguments are applied to Taylor polynomials and compared with NumPy on each (d,p) slice; view/copy structure must match numpy.shares_memory.',
             note='NumPy is the executable specification; ndim <= 3'),
 'C14': dict(design='4 C14', technique='exhaustive enumeration of public operations and enumerated programs with byte snapshots of all arguments; all aliased binary/in-place operand patterns vs. independent copies',
             text='Every public operation is called with byte snapshots of its arguments before/after; all binary and in-place operators are run with aliased operands (same object, views, overlapping slices) and compared with independent copies.',
             note='bit-wise comparison on dyadic values'),
 'C15': dict(design='4 C15', technique='exhaustive enumeration of all (N,d) up to a size bound; identity checked for all multi-index pairs in exact rational arithmetic',
             text='For all (N,d) within the bound the multi-index enumeration is compared with an independent generator and the interpolation identity is evaluated for all (i, alpha) pairs in exact rational arithmetic.',
             note='Fraction arithmetic on float Gamma; bound on binomial(N+d-1,d)'),
 'C16': dict(design='4 C16', technique='exhaustive enumeration of exported functions x orders x grid points x parameters vs. arbitrary-precision numerical differentiation (mpmath)',
             text='Every exported n-th derivative formula is evaluated on the full grid of orders, points and parameters and compared with mpmath high-precision derivatives.',
             note='mpmath.diff trusted at 60-80 digits'),
 'C17': dict(design='4 C17', technique='exhaustive enumeration of shapes/(D,P)/storage conventions and of all pivot vectors up to N; round trips compared bit-wise, LU identities in exact arithmetic',
             text='All conversion helpers are round-tripped over all shapes and conventions; all pivot vectors up to the bound are converted and checked against sequential row-swap semantics and exact P L U = A.',
             note='bit-wise equality; Fraction arithmetic'),
}


def main():
    checks = []
    na = []
    served = []
    for pid in sorted(P):
        mod = os.path.join(HERE, 'amc', 'props', pid.lower() + '.py')
        d = P[pid]
        if os.path.exists(mod):
            served.append(pid)
            checks.append({
                'property_id': pid,
                'quick_cmd': './check %s --tier quick' % pid,
                'thorough_cmd': './check %s --tier thorough' % pid,
                'evidence_file': 'evidence/%s.json' % pid,
                'replay_cmd_template': './check %s --replay {path}' % pid,
                'engine': 'amc',
                'level_claimed': {'category': 'model_checking', 'text': d['text'], 'design_ref': 'DESIGN.md section ' + d['design']},
                'level_note': d['note'],
                'technique': d['technique'],
            })
        else:
            na.append({'property_id': pid, 'reason': 'check not built yet (work in progress; planned design in DESIGN.md section %s); no claim is made' % d['design']})
    man = {
        'version': 1,
        'setup_cmd': './setup.sh',
        'hooks': {
            'guard': 'ALGOPY_VERIF',
            'enable': 'no hooks are needed: every observation point named by the properties is reachable through the public API; checks import /repo\'s working tree directly (ALGOPY_REPO overrides the path)',
            'baseline_off_cmd': 'cd /repo && /venv/bin/python -m pytest -ra -q -p no:cacheprovider --timeout=900 --continue-on-collection-errors',
            'source_commits': [],
            'add_only': True,
        },
        'engines': [{'name': 'amc', 'path': 'amc/', 'serves_properties': served,
                     'kind_free_text': 'hand-written bounded-exhaustive / explicit-state explorer in Python driving the real algopy code against reference models'}],
        'checks': checks,
        'not_applicable': na,
        'notes': 'see DESIGN.md; known_findings.json lists genuine defects (fixed ones by commit)',
    }
    with open(os.path.join(HERE, 'MANIFEST.json'), 'w') as f:
        json.dump(man, f, indent=1)
    print('claimed:', served)


if __name__ == '__main__':
    main()
