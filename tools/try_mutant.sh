#!/bin/sh
# usage: tools/try_mutant.sh <patch.diff> <PROPERTY> [tier]   - applies the patch to /repo, runs the check, reverts
PATCH="$1"; PROP="$2"; TIER="${3:-quick}"
cd /repo || exit 2
if ! git diff --quiet; then echo "repo dirty"; exit 2; fi
if ! git apply --3way "$PATCH" 2>/tmp/apply.err && ! git apply "$PATCH" 2>>/tmp/apply.err; then echo "PATCH DOES NOT APPLY"; cat /tmp/apply.err | tail -3; git reset -q --hard HEAD; exit 3; fi
cd /verif && VERIF_EVIDENCE_DIR=/tmp/wt/evidence_mutants ./check "$PROP" --tier "$TIER" 2>&1 | grep -v "^   count_\|^   max_" | cut -c1-330 | head -8
rc=$?
cd /repo && git reset -q && git checkout -- . && git status --short | head -3
