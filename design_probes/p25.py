import sys, warnings, time, itertools; sys.path.insert(0,'/repo')
warnings.simplefilter('ignore')
import numpy as np, algopy
from algopy import UTPM
rng = np.random.default_rng(3)
def pm(A,B):
    D,P = A.shape[:2]; out = np.zeros((D,P)+ (np.matmul(A[0,0],B[0,0])).shape)
    for d in range(D):
        for c in range(d+1):
            for p in range(P): out[d,p] += A[c,p]@B[d-c,p]
    return out
def T(A): return np.swapaxes(A,-1,-2)
def househ(v):
    v = np.asarray(v,float); return np.eye(len(v)) - 2*np.outer(v,v)/v.dot(v)
D=6
def build(N, lam):
    Q0 = househ(np.arange(1,N+1)) @ househ([1]+[0]*(N-2)+[1])
    K = rng.normal(size=(N,N)); K = (K-K.T)*0.3
    Qs = np.zeros((D,N,N)); Kp = np.eye(N); S = np.zeros((D,N,N))
    for d in range(D): S[d]=Kp; Kp = Kp@K
    for d in range(D): Qs[d] = Q0@(S[d] + (K@S[d-1] if d>0 else 0))
    A = np.zeros((D,1,N,N))
    for d in range(D):
        for a in range(d+1):
            for b in range(d-a+1):
                A[d,0] += Qs[a]@np.diag(lam[b])@Qs[d-a-b].T
    return 0.5*(A+T(A))
# each eigenvalue i gets a "split signature": sequence of coefficients; eigenvalues i,j first differ at order s_ij
cases = []
N=4
for sig in itertools.product(range(0,4), repeat=N-1):   # sig[k] = order at which eigenvalue k+1 separates from eigenvalue k (0 = distinct at order 0)
    lam = np.zeros((D,N))
    for i in range(N):
        for d in range(D):
            # eigenvalue i differs from i-1 starting at order sig[i-1]
            lam[d,i] = sum(1.0/(1+d-sig[k])*(0.8+0.1*k) for k in range(i) if d>=sig[k]) + 0.2*(-1)**d
    cases.append((sig,lam))
bad=0
for sig,lam in cases:
    A = build(N,lam)
    try:
        l,Q = algopy.eigh(UTPM(A)); Lm = np.zeros((D,1,N,N))
        for i in range(N): Lm[:,:,i,i]=l.data[:,:,i]
        r1 = np.abs(pm(A,Q.data)-pm(Q.data,Lm)).max(); E=np.zeros((D,1,N,N)); E[0,0]=np.eye(N); r2 = np.abs(pm(T(Q.data),Q.data)-E).max()
        r3 = np.abs(np.sort(l.data[:,0,:],axis=1)-np.sort(lam,axis=1)).max()
        if max(r1,r2)>1e-8: bad+=1; print(sig,'%.1e %.1e lam err %.1e'%(r1,r2,r3))
    except Exception as e: bad+=1; print(sig,'EXC',type(e).__name__,str(e)[:80])
print(len(cases),'cases bad',bad)
