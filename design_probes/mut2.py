import sys, subprocess
muts = [
 ('pb_exp_clobber_after', 'algopy/utpm/algorithms.py', "        xbar_data = out\n        cls._amul(ybar_data, y_data, xbar_data)\n", "        xbar_data = out\n        cls._amul(ybar_data, y_data, xbar_data)\n        y_data[1:] = 0\n"),
 ('pullback_no_reinit', 'algopy/tracer/tracer.py', "        for f in self.functionList:\n            # print 'f=',f.func.__name__\n            f.xbar_from_x()\n", "        for f in self.functionList:\n            # print 'f=',f.func.__name__\n            if not is_set(f.xbar) or f.func != f.Id:\n                f.xbar_from_x()\n"),
 ('lt_any', 'algopy/utpm/utpm.py', "            return numpy.all(self.data[0,...] < other.data[0,...])\n", "            return numpy.any(self.data[0,...] < other.data[0,...])\n"),
 ('ge_dir0', 'algopy/utpm/utpm.py', "            return numpy.all(self.data[0,...] >= other)\n", "            return numpy.all(self.data[0,0,...] >= other)\n"),
 ('sum_negaxis', 'algopy/utpm/utpm.py', "            if axis < 0:\n                a = self.data.ndim + axis\n            else:\n                a = axis + 2\n            return UTPM(numpy.sum(self.data, axis = a))", "            if axis < 0:\n                a = self.data.ndim + axis - 1\n            else:\n                a = axis + 2\n            return UTPM(numpy.sum(self.data, axis = a))"),
 ('tril_k', 'algopy/utpm/utpm.py', "                out.data[d,p] = numpy.tril(x.data[d,p], k=k)\n", "                out.data[d,p] = numpy.tril(x.data[d,p])\n"),
 ('symvec_LU_swap', 'algopy/utils.py', "                v[count] = A[m,n]\n", "                v[count] = A[n,m]\n"),
 ('dot_nonutpm_x_p', 'algopy/utpm/algorithms.py', "                z_data[d,p,...] = numpy.dot(x_data[...], y_data[d,p,...])\n", "                z_data[d,p,...] = numpy.dot(x_data[...], y_data[d,0,...])\n"),
 ('rsub', 'algopy/utpm/utpm.py', "    def __rsub__(self, other):\n        return -self + other\n", "    def __rsub__(self, other):\n        return self - other\n"),
 ('isub_scalar', 'algopy/utpm/utpm.py', "            self.data[0,...] -= rhs\n", "            self.data[...] -= rhs\n"),
 ('add_ndarray_allorders', 'algopy/utpm/utpm.py', "            z_data[...] = x_data\n            z_data[0] += y_data[0]\n", "            z_data[...] = x_data\n            z_data += y_data\n"),
 ('truediv_ndarray_rhs_first_only', 'algopy/utpm/utpm.py', "            return UTPM(x_data / y_data)\n", "            z = x_data.copy(); z[0] = x_data[0]/y_data[0]; return UTPM(z)\n"),
 ('setitem_const_keep_higher', 'algopy/utpm/utpm.py', "            self.data.__setitem__((slice(1,None),slice(None)) + sl, 0)\n", "            pass\n"),
 ('reshape_copy', 'algopy/utpm/algorithms.py', "        return numpy.reshape(a_data, a_data.shape[:2] + newshape)\n", "        return numpy.reshape(a_data, a_data.shape[:2] + newshape).copy()\n"),
 ('transpose_copy', 'algopy/utpm/utpm.py', "    def transpose(self, axes=None):\n        return UTPM(UTPM._transpose(self.data, axes=axes))\n", "    def transpose(self, axes=None):\n        return UTPM(UTPM._transpose(self.data, axes=axes).copy())\n"),
 ('inv_sign', 'algopy/utpm/algorithms.py', "                for c in range(1,d+1):\n                    y_data[d,p,:,:] += numpy.dot(x_data[c,p,:,:], y_data[d-c,p,:,:],)\n", "                for c in range(1,d+1 if d < 3 else d):\n                    y_data[d,p,:,:] += numpy.dot(x_data[c,p,:,:], y_data[d-c,p,:,:],)\n"),
 ('qr_rinv_p', 'algopy/utpm/algorithms.py', "                Rinv[p,:rank,:rank] = numpy.linalg.inv(R_data[0,p,:rank,:rank])\n", "                Rinv[p,:rank,:rank] = numpy.linalg.inv(R_data[0,0,:rank,:rank])\n"),
 ('cholesky_L0inv_p', 'algopy/utpm/algorithms.py', "            L0inv = numpy.linalg.inv(L_data[0,p])\n", "            L0inv = numpy.linalg.inv(L_data[0,0])\n"),
 ('lu_w_p', 'algopy/utpm/utpm.py', "            w,l,u = scipy.linalg.lu(A.data[0,p])\n            W.data[0,p] = w\n", "            w,l,u = scipy.linalg.lu(A.data[0,p])\n            W.data[0,p] = w\n            w = W.data[0,0]\n"),
 ('jacobian_other_point', 'algopy/tracer/tracer.py', "            tmp = numpy.zeros((1,M) + numpy.shape(x))\n            tmp[0,...] = x\n", "            tmp = numpy.zeros((1,M) + numpy.shape(x))\n            tmp[0,...] = x\n            tmp[0,1:,...] = self.independentFunctionList[0].x.data[0,:1] if hasattr(self.independentFunctionList[0].x,'data') else x\n"),
 ('hess_vec_order', 'algopy/tracer/tracer.py', "        return self.independentFunctionList[0].xbar.data[1,0]\n\n    def vec_hess", "        return self.independentFunctionList[0].xbar.data[1,0]*1.0 if self.independentFunctionList[0].size < 4 else self.independentFunctionList[0].xbar.data[0,0]\n\n    def vec_hess"),
 ('shift_pos', 'algopy/utpm/utpm.py', "            out.data[s:,...] = self.data[:-s,...]\n", "            out.data[s:,...] = self.data[:-s,...] if s < 2 else self.data[s-1:-1,...]\n"),
 ('trace_off_noop', 'algopy/tracer/tracer.py', "    def trace_off(self):\n        Function.cgraph = None\n        return self\n", "    def trace_off(self):\n        return self\n"),
 ('totype_dup', 'algopy/tracer/tracer.py', "        if isinstance(x, cls):\n            return x\n\n        else:\n            return cls(x)\n", "        if isinstance(x, cls):\n            return x\n\n        else:\n            cls(x)\n            return cls(x)\n"),
]
for name,f,a,b in muts:
    src = open(f).read()
    if src.count(a)<1: print(name,'PATTERN NOT FOUND'); continue
    open(f,'w').write(src.replace(a,b,1))
    r = subprocess.run(['/venv/bin/python','-m','pytest','-q','-p','no:cacheprovider','algopy'],capture_output=True,text=True)
    last = [l for l in r.stdout.splitlines() if 'passed' in l or 'failed' in l or 'error' in l][-1:]
    print('%-32s %s'%(name,last))
    open(f,'w').write(src)
