import sys, warnings; sys.path.insert(0,'/repo')
warnings.simplefilter('ignore')
import numpy as np, algopy
from algopy import UTPM, CGraph, Function
np.set_printoptions(precision=5, suppress=True, linewidth=150)
rng = np.random.default_rng(0)

def tdot(a,b,D,P):
    out = np.zeros((D,P))
    for d in range(D):
        for c in range(d+1):
            out[d] += (a[c]*b[d-c]).reshape(P,-1).sum(axis=1)
    return out
def check(f, shp, D=3, P=2, name='', gen=None):
    x0 = gen(D,P) if gen else rng.uniform(.5,1.5,size=(D,P)+shp)
    cg = CGraph(); x = Function(UTPM(x0.copy()))
    try: y = f(x)
    except Exception as e: print('%-22s TRACE-EXC %s %s'%(name,type(e).__name__, str(e)[:80])); return
    cg.trace_off(); cg.independentFunctionList=[x]; cg.dependentFunctionList=[y]
    ybar = UTPM(rng.uniform(-1,1,size=y.x.data.shape))
    try: cg.pullback([ybar])
    except Exception as e: print('%-22s PB-EXC %s'%(name, str(e).strip().splitlines()[-1][:120])); return
    xbar = x.xbar.data
    v = rng.uniform(-1,1,size=x0.shape)
    big = np.concatenate([x0, v]); base = np.concatenate([x0, np.zeros_like(v)])
    Jv = f(UTPM(big)).data[D:] - f(UTPM(base)).data[D:]
    lhs = tdot(xbar, v, D, P); rhs = tdot(ybar.data, Jv, D, P)
    err = np.abs(lhs-rhs).max()/(1+np.abs(rhs).max())
    print('%-22s %s'%(name, 'OK %.0e'%err if err<1e-9 else 'MISMATCH err=%g'%err))
def symgen(D,P):
    B = rng.uniform(-1,1,size=(D,P,3,3)); B = B+np.swapaxes(B,-1,-2); B[0]+= np.diag([1.,3.,6.]); return B
def spdgen(D,P):
    B = symgen(D,P); B[0]+=5*np.eye(3); return B
M=(3,3)
check(lambda A: algopy.inv(A), M, name='inv')
check(lambda A: algopy.solve(A, A.T), M, name='solve(A,A.T)')
check(lambda A: algopy.solve(A, np.eye(3)), M, name='solve(A,I)')
check(lambda A: algopy.solve(np.eye(3)+.1, A), M, name='solve(C,A)')
check(lambda A: algopy.det(A), M, name='det')
check(lambda A: algopy.logdet(A), M, name='logdet', gen=spdgen)
check(lambda A: algopy.trace(A), M, name='trace')
check(lambda A: algopy.diag(A), M, name='diag(M)')
check(lambda A: algopy.diag(A[0]), M, name='diag(v)')
check(lambda A: algopy.triu(A), M, name='triu')
check(lambda A: algopy.tril(A), M, name='tril')
check(lambda A: algopy.qr(A)[0], M, name='qr Q')
check(lambda A: algopy.qr(A)[1], M, name='qr R')
check(lambda A: algopy.qr(A[:,:2])[0], M, name='qr tall Q')
check(lambda A: algopy.qr(A[:,:2])[1], M, name='qr tall R')
check(lambda A: algopy.qr(A[:2,:])[0], M, name='qr wide Q')
check(lambda A: algopy.qr(A[:2,:])[1], M, name='qr wide R')
check(lambda A: algopy.qr_full(A[:,:2])[0], M, name='qr_full Q')
check(lambda A: algopy.qr_full(A[:,:2])[1], M, name='qr_full R')
check(lambda A: algopy.cholesky(A), M, name='cholesky', gen=spdgen)
check(lambda A: algopy.lu(A)[1], M, name='lu L')
check(lambda A: algopy.lu(A)[2], M, name='lu U')
check(lambda A: algopy.eigh(A)[0], M, name='eigh l', gen=symgen)
check(lambda A: algopy.eigh(A)[1], M, name='eigh Q', gen=symgen)
check(lambda A: algopy.svd(A)[1], M, name='svd s')
check(lambda A: algopy.svd(A)[0], M, name='svd U')
check(lambda A: algopy.svd(A)[2], M, name='svd V')
check(lambda A: algopy.svd(A[:2])[1], M, name='svd wide s')
check(lambda A: algopy.svd(A[:,:2])[1], M, name='svd tall s')
check(lambda A: algopy.eig(A)[0], M, D=1, name='eig l', gen=symgen)
check(lambda A: algopy.eig(A)[1], M, D=1, name='eig Q', gen=symgen)
check(lambda A: algopy.symvec(A), M, name='symvec F')
check(lambda A: algopy.symvec(A,'L'), M, name='symvec L')
check(lambda A: algopy.symvec(A,'U'), M, name='symvec U')
check(lambda A: algopy.vecsym(A[0]), M, name='vecsym')
check(lambda A: algopy.tile(A,2), M, name='tile 2')
check(lambda A: algopy.tile(A,(2,1)), M, name='tile (2,1)')
check(lambda A: algopy.tile(A[0],(2,2)), M, name='tile v (2,2)')
check(lambda A: algopy.real(algopy.fft.ifft(algopy.fft.fft(A)*2)), M, name='fft roundtrip')
check(lambda A: algopy.real(algopy.fft.fft(A)), M, name='real fft')
check(lambda A: algopy.imag(algopy.fft.fft(A)), M, name='imag fft')
check(lambda A: algopy.real(algopy.conjugate(algopy.fft.fft(A))), M, name='conj')
check(lambda A: algopy.expm(A*0.2), M, name='expm')
check(lambda A: algopy.prod(A[0]), M, name='prod')
check(lambda A: algopy.sum(A*A, axis=1), M, name='sum(A*A,1)')
check(lambda A: algopy.dot(A, np.array([1.,2,3])), M, name='dot(A,c)')
check(lambda A: algopy.dot(np.array([1.,2,3]), A), M, name='dot(c,A)')
check(lambda A: algopy.dot(np.arange(6.).reshape(2,3), A), M, name='dot(C,A)')
check(lambda A: algopy.dot(A, np.arange(6.).reshape(3,2)), M, name='dot(A,C)')
check(lambda A: algopy.outer(A[0], np.array([1.,2,3])), M, name='outer(v,c)')
check(lambda A: algopy.special.botched_clip(0.8,1.2,A), M, name='botched_clip')
check(lambda A: A[0]*A[1] + A[:,2], M, name='views mix')
def bufprog(A):
    y = algopy.zeros(3, dtype=A); y[0]=A[0,0]*A[1,1]; y[1]=y[0]*A[2,2]; y[2]=algopy.sum(y[:2]); y[0]=y[2]*y[1]; return y
check(bufprog, M, name='buffer prog')
def bufprog2(A):
    y = algopy.zeros((2,3), dtype=A); y[0]=A[0]; y[1]=A[1]*y[0]; y[0,:]=y[1]*2; return algopy.dot(y, A)
check(bufprog2, M, name='buffer prog2')
def bufprog3(A):
    B = A*1.0; B[0,0] = B[1,1]*B[0,0]; v = B[0]; B[0,1] = v[0]*3; return B
check(bufprog3, M, name='in-place on computed')
print('---- with symmetrizing adapter inside the program')
check(lambda A: algopy.cholesky(algopy.dot(A,A.T)+np.eye(3)), M, name='cholesky(AAt+I)')
check(lambda A: algopy.cholesky(A+A.T+np.eye(3)*4), M, name='cholesky(A+At+4I)')
check(lambda A: algopy.eigh(A+A.T+np.diag([0.,3,7]))[0], M, name='eigh l sym')
check(lambda A: algopy.eigh(A+A.T+np.diag([0.,3,7]))[1], M, name='eigh Q sym')
check(lambda A: algopy.eigh(A+A.T+np.diag([0.,3,7]))[1], M, D=1, name='eigh Q sym D=1')
check(lambda A: algopy.eigh(A+A.T+np.diag([0.,3,7]))[1], M, D=2, name='eigh Q sym D=2')
check(lambda A: algopy.logdet(algopy.dot(A,A.T)+np.eye(3)), M, name='logdet spd')
check(lambda A: algopy.dot(A, A[0]), M, name='dot(A,v)')
check(lambda A: algopy.dot(A[0], A), M, name='dot(v,A)')
check(lambda A: algopy.dot(A, A[0]), M, D=1, P=1, name='dot(A,v) D=1')
