import sys, warnings; sys.path.insert(0,'/repo'); warnings.simplefilter('ignore')
import numpy as np, algopy
from algopy import UTPM, CGraph, Function
rng = np.random.default_rng(0)
def rev(f, x0, yb):
    cg = CGraph(); x = Function(UTPM(x0.copy())); y = f(x); cg.trace_off(); cg.independentFunctionList=[x]; cg.dependentFunctionList=[y]
    cg.pullback([UTPM(yb.copy())]); return x.xbar.data.copy()
progs = {
 'arith': lambda A: A*A.T/(A[0]+2.0) - algopy.exp(A),
 'inv': lambda A: algopy.inv(A+np.eye(3)*3),
 'qrR': lambda A: algopy.qr(A)[1],
 'eighl': lambda A: algopy.eigh(A+A.T+np.diag([0.,3,7]))[0],
 'chol': lambda A: algopy.cholesky(algopy.dot(A,A.T)+np.eye(3)),
 'det': lambda A: algopy.det(A), 'sqrt': lambda A: algopy.sqrt(A)*algopy.sin(A), 'solve': lambda A: algopy.solve(A+3*np.eye(3), A.T),
 'svds': lambda A: algopy.svd(A)[1], 'lu': lambda A: algopy.lu(A)[2], 'buf': lambda A: (lambda b: (b.__setitem__(0, A[0]*A[1]), b.__setitem__(1, b[0]*A[2]), b)[2])(algopy.zeros((2,3),dtype=A)),
}
D,P=4,2
for name,f in progs.items():
    x0 = rng.uniform(.5,1.5,size=(D,P,3,3)); x0[1:] = rng.uniform(-1,1,size=(D-1,P,3,3))
    ysh = f(UTPM(x0)).data.shape; yb = rng.uniform(-1,1,size=ysh)
    full = rev(f,x0,yb)
    e12 = max(np.abs(rev(f,x0[:Dp],yb[:Dp]) - full[:Dp]).max() for Dp in range(1,D))
    e11 = max(np.abs(rev(f,x0[:,p:p+1],yb[:,p:p+1])[:,0] - full[:,p]).max() for p in range(P))
    print('%-6s reverse C12 %.1e  C11 %.1e'%(name,e12,e11))
