import sys, warnings, time; sys.path.insert(0,'/repo')
warnings.simplefilter('ignore')
import numpy as np, algopy, itertools
from algopy import UTPM
sys.path.append('/tmp/probe/vendor')
import mpmath as mp
mp.mp.dps = 40
sp = algopy.special
def dawson(x): return mp.sqrt(mp.pi)/2*mp.exp(-x*x)*mp.erfi(x)
F = {
 'exp':(algopy.exp,mp.exp,[-1.2,0,0.7]),'expm1':(algopy.expm1,mp.expm1,[-1.2,0,.7]),'log':(algopy.log,mp.log,[.3,1,2.5]),'log1p':(algopy.log1p,mp.log1p,[-.5,0,1.5]),'sqrt':(algopy.sqrt,mp.sqrt,[.3,1,2.5]),
 'sin':(algopy.sin,mp.sin,[-1.2,0,.7]),'cos':(algopy.cos,mp.cos,[-1.2,0,.7]),'tan':(algopy.tan,mp.tan,[-1.2,0,.7]),'arcsin':(algopy.arcsin,mp.asin,[-.7,0,.4]),'arccos':(algopy.arccos,mp.acos,[-.7,0,.4]),'arctan':(algopy.arctan,mp.atan,[-1.2,0,.7]),
 'sinh':(algopy.sinh,mp.sinh,[-1.2,0,.7]),'cosh':(algopy.cosh,mp.cosh,[-1.2,0,.7]),'tanh':(algopy.tanh,mp.tanh,[-1.2,0,.7]),'reciprocal':(algopy.reciprocal,lambda x:1/x,[-1.2,.7]),'square':(algopy.square,lambda x:x*x,[-1.2,0,.7]),
 'erf':(sp.erf,mp.erf,[-1.2,0,.7]),'erfi':(sp.erfi,mp.erfi,[-1.2,0,.7]),'dawsn':(sp.dawsn,dawson,[-1.2,0,.7]),'logit':(sp.logit,lambda x: mp.log(x/(1-x)),[.2,.5,.8]),'expit':(sp.expit,lambda x:1/(1+mp.exp(-x)),[-1.2,0,.7]),
 'gammaln':(sp.gammaln,mp.loggamma,[.5,1,3]),'psi':(sp.psi,mp.digamma,[.5,1,3]),'polygamma2':(lambda x: sp.polygamma(2,x),lambda x: mp.polygamma(2,x),[.5,1,3]),'hyperu':(lambda x: sp.hyperu(1.5,.5,x),lambda x: mp.hyperu(1.5,.5,x),[.5,1,3]),
 'absolute':(algopy.absolute,abs,[-1.2,.7]),'sign':(algopy.sign,mp.sign,[-1.2,.7]),
 'pow3':(lambda x:x**3,lambda x:x**3,[-1.2,0,.7]),'pow2':(lambda x:x**2,lambda x:x**2,[-1.2,0,.7]),'pow1':(lambda x:x**1,lambda x:x,[-1.2,0,.7]),'pow0':(lambda x:x**0,lambda x:x**0,[-1.2,.7]),
 'pow-2':(lambda x:x**-2,lambda x:x**-2,[-1.2,.7]),'pow-1':(lambda x:x**-1,lambda x:1/x,[-1.2,.7]),'pow2.5':(lambda x:x**2.5,lambda x:x**mp.mpf(2.5),[.3,2.5]),'pow2.0':(lambda x:x**2.0,lambda x:x**2,[-1.2,.7]),'pow3.0':(lambda x:x**3.0,lambda x:x**3,[-1.2,.7]),
 'rpow':(lambda x:2.**x,lambda x:mp.mpf(2)**x,[-1.2,0,.7]),'powx':(lambda x:x**x,lambda x:x**x,[.3,2.5]),
 'np.pow int64': (lambda x: x**np.int64(3), lambda x:x**3, [-1.2,.7]),
}
D=7
pats = [[1,0,0,0,0,0],[1,.5,0,0,0,0],[0,1,0,0,0,0],[0,0,1,0,0,0],[1,-1,2,-.5,.25,3],[0,0,0,0,0,0],[0,0,0,0,0,1]]
t0=time.time(); n=0
for name,(f,g,x0s) in F.items():
    worst=0; w=None
    for x0 in x0s:
        for pat in pats:
            coeffs=[x0]+pat
            x = UTPM(np.array(coeffs,dtype=float).reshape(D,1))
            try:
                y = f(x).data[:,0]
            except Exception as e:
                print(name,'EXC',x0,pat,type(e).__name__,str(e)[:60]); continue
            ref = mp.taylor(lambda t: g(mp.polyval(coeffs[::-1],t)), 0, D-1); n+=1
            for d in range(D):
                r = float(ref[d]); err = abs(y[d]-r)/max(1,abs(r))
                if not (err<=worst): worst=err; w=(x0,pat,d,y[d],r)   # catches nan
    print('%-12s worst %.1e'%(name,worst), '' if worst<1e-9 else w)
print(n,'cases',time.time()-t0,'s')
