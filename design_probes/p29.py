import sys, warnings, time, itertools; sys.path.insert(0,'/repo')
warnings.simplefilter('ignore')
import numpy as np, algopy, operator
from algopy import UTPM, CGraph, Function
sp = algopy.special
n=3
# templates: name -> (input types tuple, function)
S,V,M = 'S','V','M'
cV = np.array([1.,2.,3.]); cC = np.array([[1.],[2.],[3.]]); cM = np.arange(1.,10).reshape(3,3)/4.
T = {}
for nm,o in [('add',operator.add),('sub',operator.sub),('mul',operator.mul),('div',operator.truediv)]:
    for a in (S,V,M):
        for b in (S,V,M): T['%s(%s,%s)'%(nm,a,b)] = ((a,b), o)
    for a in (S,V,M):
        T['%s(%s,2.0)'%(nm,a)] = ((a,), lambda r,o=o: o(r,2.0)); T['%s(2.0,%s)'%(nm,a)] = ((a,), lambda r,o=o: o(2.0,r))
        T['%s(%s,cV)'%(nm,a)] = ((a,), lambda r,o=o: o(r,cV)); T['%s(cV,%s)'%(nm,a)] = ((a,), lambda r,o=o: o(cV,r))
        T['%s(%s,cC)'%(nm,a)] = ((a,), lambda r,o=o: o(r,cC)); T['%s(cC,%s)'%(nm,a)] = ((a,), lambda r,o=o: o(cC,r))
for k in [0,1,2,3,-1,-2,0.5,2.5]:
    for a in (S,V,M): T['pow(%s,%s)'%(a,k)] = ((a,), lambda r,k=k: r**k)
for a in (S,V,M): T['neg(%s)'%a]=((a,), operator.neg)
for f in ['exp','expm1','log','log1p','sqrt','sin','cos','tan','square','reciprocal','absolute','sign','negative','arcsin','arccos','arctan','sinh','cosh','tanh','conjugate']:
    T['%s(V)'%f] = ((V,), lambda r,f=f: getattr(algopy,f)(r*0.5))
for f in ['erf','erfi','dawsn','logit','expit','gammaln','psi']:
    T['%s(V)'%f] = ((V,), lambda r,f=f: getattr(sp,f)(r*0.5))
T['polygamma(1,V)']=((V,), lambda r: sp.polygamma(1,r)); T['hyperu(V)']=((V,), lambda r: sp.hyperu(1.5,.5,r)); T['clip(V)']=((V,), lambda r: sp.botched_clip(.8,1.2,r))
T['minimum(V,V)']=((V,V), algopy.minimum); T['maximum(V,V)']=((V,V), algopy.maximum)
views = {'[0]':lambda r:r[0],'[-1]':lambda r:r[-1],'[::-1]':lambda r:r[::-1],'[1:]':lambda r:r[1:],'[None]':lambda r:r[None],'[...]':lambda r:r[...]}
for k,f in views.items():
    T['V'+k]=((V,),f); T['M'+k]=((M,),f)
for k,f in {'[:,0]':lambda r:r[:,0],'[0,:]':lambda r:r[0,:],'[:,:1]':lambda r:r[:,:1],'[0,1]':lambda r:r[0,1],'[::2,::-1]':lambda r:r[::2,::-1],'.T':lambda r:r.T}.items(): T['M'+k]=((M,),f)
T['reshape(M,9)']=((M,), lambda r: algopy.reshape(r,(9,))); T['reshape(M.T,9)']=((M,), lambda r: algopy.reshape(r.T,(9,))); T['reshape(V,(3,1))']=((V,), lambda r: algopy.reshape(r,(3,1))); T['M.reshape((1,9))']=((M,), lambda r: r.reshape((1,9)))
T['reshape(M[:,::2],(6,))']=((M,), lambda r: algopy.reshape(r[:,::2],(6,)))
for ax in [None,0,1,-1,-2]: T['sum(M,%s)'%ax]=((M,), lambda r,ax=ax: algopy.sum(r,axis=ax))
for ax in [None,0,-1]: T['sum(V,%s)'%ax]=((V,), lambda r,ax=ax: algopy.sum(r,axis=ax))
T['M.sum()']=((M,), lambda r: r.sum()); T['prod(V)']=((V,), algopy.prod); T['trace(M)']=((M,), algopy.trace)
for a,b in [(V,V),(M,V),(V,M),(M,M)]: T['dot(%s,%s)'%(a,b)]=((a,b), algopy.dot)
T['dot(M,cV)']=((M,), lambda r: algopy.dot(r,cV)); T['dot(cV,M)']=((M,), lambda r: algopy.dot(cV,r)); T['dot(M,cM)']=((M,), lambda r: algopy.dot(r,cM)); T['dot(cM,M)']=((M,), lambda r: algopy.dot(cM,r)); T['dot(V,cV)']=((V,), lambda r: algopy.dot(r,cV)); T['dot(cV,V)']=((V,), lambda r: algopy.dot(cV,r)); T['dot(cM,V)']=((V,), lambda r: algopy.dot(cM,r)); T['dot(V,cM)']=((V,), lambda r: algopy.dot(r,cM))
T['outer(V,V)']=((V,V), algopy.outer); T['outer(V,cV)']=((V,), lambda r: algopy.outer(r,cV)); T['outer(cV,V)']=((V,), lambda r: algopy.outer(cV,r)); T['outer(V,V[:2])']=((V,V), lambda a,b: algopy.outer(a,b[:2]))
T['inv(M)']=((M,), algopy.inv); T['solve(M,M)']=((M,M), algopy.solve); T['solve(M,cM)']=((M,), lambda r: algopy.solve(r,cM)); T['solve(cM+I,M)']=((M,), lambda r: algopy.solve(cM+np.eye(3),r)); T['solve(M,V[:,None])']=((M,V), lambda a,b: algopy.solve(a,algopy.reshape(b,(3,1))))
T['det(M)']=((M,), algopy.det); T['logdet(spd)']=((M,), lambda r: algopy.logdet(algopy.dot(r,r.T)+np.eye(3))); T['diag(M)']=((M,), algopy.diag); T['diag(V)']=((V,), algopy.diag); T['triu(M)']=((M,), algopy.triu); T['tril(M)']=((M,), algopy.tril)
for u in 'FLU': T['symvec(M,%s)'%u]=((M,), lambda r,u=u: algopy.symvec(r,u))
T['vecsym(M[0])']=((M,), lambda r: algopy.vecsym(r[0])); 
for reps in [2,(2,),(2,1),(1,2),(2,2)]: T['tile(M,%s)'%(reps,)]=((M,), lambda r,reps=reps: algopy.tile(r,reps)); T['tile(V,%s)'%(reps,)]=((V,), lambda r,reps=reps: algopy.tile(r,reps))
for i in (0,1):
    T['qr(M)[%d]'%i]=((M,), lambda r,i=i: algopy.qr(r)[i]); T['qr(tall)[%d]'%i]=((M,), lambda r,i=i: algopy.qr(r[:,:2])[i]); T['qr(wide)[%d]'%i]=((M,), lambda r,i=i: algopy.qr(r[:2])[i]); T['qr_full(tall)[%d]'%i]=((M,), lambda r,i=i: algopy.qr_full(r[:,:2])[i])
    T['eigh(sym)[%d]'%i]=((M,), lambda r,i=i: algopy.eigh(r+r.T+np.diag([0.,3,7]))[i]); T['eig(sym)[%d]'%i]=((M,), lambda r,i=i: algopy.eig(r+r.T+np.diag([0.,3,7]))[i])
for i in (0,1,2):
    T['lu(M)[%d]'%i]=((M,), lambda r,i=i: algopy.lu(r)[i]); T['svd(M)[%d]'%i]=((M,), lambda r,i=i: algopy.svd(r)[i]); T['svd(wide)[%d]'%i]=((M,), lambda r,i=i: algopy.svd(r[:2])[i]); T['svd(tall)[%d]'%i]=((M,), lambda r,i=i: algopy.svd(r[:,:2])[i])
T['cholesky(spd)']=((M,), lambda r: algopy.cholesky(algopy.dot(r,r.T)+np.eye(3)))
T['real(fft(M))']=((M,), lambda r: algopy.real(algopy.fft.fft(r))); T['imag(fft(M,axis=0))']=((M,), lambda r: algopy.imag(algopy.fft.fft(r,axis=0))); T['real(ifft(fft(M)*M))']=((M,), lambda r: algopy.real(algopy.fft.ifft(algopy.fft.fft(r)*r)))
T['real(conj(fft))']=((M,), lambda r: algopy.real(algopy.conjugate(algopy.fft.fft(r))))
T['expm(M)']=((M,), lambda r: algopy.expm(r*0.2))
def buf1(r):
    b = algopy.zeros(3,dtype=r); b[0]=r[0]*r[1]; b[1]=b[0]*r[2]; b[2]=2.0; b[0]=b[1]+b[2]; return b
def buf2(r):
    b = algopy.zeros((2,3),dtype=r); b[0]=r; b[1]=r*b[0]; b[0,:2]=b[1,1:]; return b
def buf3(r):
    B = r*1.0; v = B[0]; B[0,0]=B[1,1]*v[1]; return B*v
def buf4(r):
    b = algopy.ones((3,),dtype=r); b[:] = b*r; b[::2] = r[0]; return b
T['buf1(V)']=((V,),buf1); T['buf2(V)']=((V,),buf2); T['buf3(M)']=((M,),buf3); T['buf4(V)']=((V,),buf4)
T['zeros_like*'] = ((V,), lambda r: algopy.zeros_like(r)+r); T['ones_like*'] = ((V,), lambda r: algopy.ones_like(r)*r)
rng = np.random.default_rng(0)
def tdot(a,b,D,P):
    out = np.zeros((D,P))
    for d in range(D):
        for c in range(d+1): out[d] += np.real(a[c]*b[d-c]).reshape(P,-1).sum(axis=1)
    return out
def run(name, types, f, D, P):
    # independent x of length 12: regs: S=x[0], V=x[0:3] / x[3:6], M = reshape(x[3:12])
    def prog(x):
        regs = {'S':[x[0],x[1]], 'V':[x[0:3],x[3:6]], 'M':[algopy.reshape(x[3:12],(3,3)), algopy.reshape(x[0:9],(3,3))]}
        cnt = {}; args=[]
        for t in types:
            i = cnt.get(t,0); cnt[t]=i+1; args.append(regs[t][i])
        return f(*args)
    x0 = rng.uniform(.6,1.4,size=(D,P,12)); x0[1:] = rng.uniform(-1,1,size=(D-1,P,12))
    try:
        yref = prog(UTPM(x0.copy()))
    except Exception as e: return 'fwd-exc:'+type(e).__name__
    cg = CGraph(); x = Function(UTPM(x0.copy()))
    try: y = prog(x)
    except Exception as e: return 'trace-exc:'+type(e).__name__
    cg.trace_off(); cg.independentFunctionList=[x]; cg.dependentFunctionList=[y]
    if not isinstance(y.x, UTPM): return 'nonutpm-out'
    if not np.array_equal(y.x.data, yref.data): return 'trace-value-diff'
    ybar = UTPM(rng.uniform(-1,1,size=y.x.data.shape))
    try: cg.pullback([ybar])
    except Exception as e:
        msg = str(e); kind = 'NotImplementedError' if 'NotImplementedError' in msg else ('no-pb' if "has no attribute 'pb_" in msg else msg.strip().splitlines()[-1].split(':')[0])
        return 'pb-exc:'+kind
    xbar = x.xbar.data; v = rng.uniform(-1,1,size=x0.shape)
    try: Jv = prog(UTPM(np.concatenate([x0,v]))).data[D:] - prog(UTPM(np.concatenate([x0,np.zeros_like(v)]))).data[D:]
    except Exception as e: return 'oracle-exc:'+type(e).__name__
    lhs = tdot(xbar,v,D,P); rhs = tdot(ybar.data,Jv,D,P)
    err = np.abs(lhs-rhs).max()/(1+np.abs(rhs).max())
    return 'ok' if err<1e-8 else 'WRONG(%.0e)'%err
t0=time.time(); res={}
for name,(types,f) in T.items():
    r = [run(name,types,f,D,P) for (D,P) in [(1,1),(2,1),(3,2)]]
    res[name]=r
print(len(T),'templates in %.1fs'%(time.time()-t0))
import collections
groups = collections.defaultdict(list)
for k,r in res.items(): groups[tuple(r)].append(k)
for g,ks in sorted(groups.items(), key=lambda kv: str(kv[0])):
    print(g, len(ks)); print('    ', ', '.join(ks))
