import sys, warnings, time, itertools; sys.path.insert(0,'/repo')
warnings.simplefilter('ignore')
import numpy as np, algopy
from algopy import UTPM
rng = np.random.default_rng(3)
def pm(A,B):
    D,P = A.shape[:2]; out = np.zeros((D,P)+ (np.matmul(A[0,0],B[0,0])).shape)
    for d in range(D):
        for c in range(d+1):
            for p in range(P): out[d,p] += A[c,p]@B[d-c,p]
    return out
def T(A): return np.swapaxes(A,-1,-2)
def househ(v):
    v = np.asarray(v,float); return np.eye(len(v)) - 2*np.outer(v,v)/v.dot(v)
D=6
for N,blocks in [(2,[2]),(3,[2,1]),(3,[1,2]),(3,[3]),(4,[2,2]),(4,[2,1,1]),(4,[1,2,1]),(4,[3,1]),(4,[4])]:
    Q0 = househ(np.arange(1,N+1)) @ househ([1]+[0]*(N-2)+[1] if N>1 else [1])
    for s in list(range(1,D))+[None]:
        # build A(t) = Q(t) L(t) Q(t)^T with L diagonal polys: blocks equal up to order s-1, distinct at order s
        lam = np.zeros((D,N)); pos=0
        for bi,b in enumerate(blocks):
            for k in range(b):
                lam[0,pos] = 1.0+2*bi
                for d in range(1,D):
                    lam[d,pos] = 0.3*(bi+1)*((-1)**d)           # common part within block
                    if s is not None and d>=s: lam[d,pos] += (k+1)*0.7/(d-s+1)   # splits at order s
                pos+=1
        # smooth orthogonal Q(t) = Q0 * exp(t K) truncated ~ use Cayley? simpler: Q(t)=Q0 (I + tK)(I - tK)^-1 series
        K = rng.normal(size=(N,N)); K = (K-K.T)*0.3
        # series of (I - tK)^{-1} = sum t^k K^k ; Q(t) = Q0 (I+tK) sum K^k t^k
        Qs = np.zeros((D,N,N)); Kp = np.eye(N)
        S = np.zeros((D,N,N))
        for d in range(D): S[d]=Kp; Kp = Kp@K
        for d in range(D): Qs[d] = Q0@(S[d] + (K@S[d-1] if d>0 else 0))
        A = np.zeros((D,1,N,N))
        for d in range(D):
            for a in range(d+1):
                for b in range(d-a+1):
                    A[d,0] += Qs[a]@np.diag(lam[b])@Qs[d-a-b].T
        A = 0.5*(A+T(A))
        try:
            l,Q = algopy.eigh(UTPM(A)); Lm = np.zeros((D,1,N,N))
            for i in range(N): Lm[:,:,i,i]=l.data[:,:,i]
            r1 = np.abs(pm(A,Q.data)-pm(Q.data,Lm)).max(); E=np.zeros((D,1,N,N)); E[0,0]=np.eye(N); r2 = np.abs(pm(T(Q.data),Q.data)-E).max()
            # eigenvalue polys vs constructed (as sets per order? compare sorted by order-0 then by split)
            le = np.sort(l.data[:,0,:],axis=1); lr = np.sort(lam,axis=1)
            print(N,blocks,'split@',s,'AQ-QL %.1e QtQ-I %.1e'%(r1,r2), '' if max(r1,r2)<1e-8 else '<<<<<')
        except Exception as e: print(N,blocks,'split@',s,'EXC',type(e).__name__,str(e)[:80])
