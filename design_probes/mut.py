import sys, subprocess, shutil, os, re
muts = [
 ('arctan_range', 'algopy/utpm/algorithms.py', "            z_data[d] = 2* numpy.sum([k*x_data[k] * x_data[d-k] for k in range(1,d+1)], axis = 0)/d\n", "            z_data[d] = 2* numpy.sum([k*x_data[k] * x_data[d-k] for k in range(1,d+1 if d<5 else d)], axis = 0)/d\n"),
 ('exp_hoist_scratch', 'algopy/utpm/algorithms.py', "            xtctilde = x_data[1:].copy()\n", "            xtctilde = x_data[1:]\n"),
 ('pb_mul_assign', 'algopy/utpm/utpm.py', "            # xbar2 += zbar * y\n            workaround_strides_function(xbar2, zbar * y, operator.iadd)\n            # ybar2 += zbar * x\n", "            # xbar2 += zbar * y\n            workaround_strides_function(xbar2, zbar * y, operator.setitem if False else operator.iadd)\n            xbar2.data[-1:] *= (1 if xbar2.data.shape[0] < 3 else 0)\n            # ybar2 += zbar * x\n"),
 ('sum_axis', 'algopy/utpm/utpm.py', "                a = self.data.ndim + axis\n            else:\n                a = axis + 2\n            return UTPM(numpy.sum(self.data, axis = a))", "                a = self.data.ndim + axis\n            else:\n                a = axis + 2 if self.data.ndim < 5 else axis + 3\n            return UTPM(numpy.sum(self.data, axis = a))"),
 ('solve_ploop', 'algopy/utpm/algorithms.py', "        for d in range(1, D):\n            for p in range(P):\n                tmp[:,:] = x_data[d,p,:,:]\n", "        for d in range(1, D):\n            for p in range(P if P < 3 else P-1):\n                tmp[:,:] = x_data[d,p,:,:]\n"),
 ('sqrt_noclone', 'algopy/utpm/utpm.py', "    def sqrt(self):\n        retval = self.clone()\n", "    def sqrt(self):\n        retval = self\n"),
 ('extract_hessian_idx', 'algopy/utpm/utpm.py', "                k =  sum(range(n+2)) - m - 1\n", "                k =  sum(range(n+2)) - m - 1 if n < 3 else sum(range(n+2)) - m - 2\n"),
 ('gamma_sign', 'algopy/exact_interpolation.py', "        term1 = (-1.)**multi_index_abs(i - k)\n", "        term1 = (-1.)**multi_index_abs(i - k) if multi_index_abs(i) < 5 else 1.\n"),
 ('nthderiv_arctan', 'algopy/nthderiv/nthderiv.py', "    a = 0.5j * pow(-1, n) * math.factorial(n - 1)\n    b = pow(x - 1j, -n) - pow(x + 1j, -n)\n", "    a = 0.5j * pow(-1, n) * math.factorial(n - 1 if n < 5 else n - 2)\n    b = pow(x - 1j, -n) - pow(x + 1j, -n)\n"),
 ('piv2mat_order', 'algopy/utils.py', "    for i in range(N):\n        tmp = swap[i]\n", "    for i in (range(N) if N < 4 else range(N)[::-1]):\n        tmp = swap[i]\n"),
 ('tracer_store_view', 'algopy/tracer/tracer.py', "        store = operator.getitem(self.x,sl).copy()\n", "        store = operator.getitem(self.x,sl)\n"),
 ('pb_exp_overwrite', 'algopy/utpm/algorithms.py', "        xbar_data = out\n        cls._amul(ybar_data, y_data, xbar_data)\n", "        xbar_data = out\n        y_data *= 1.0000001\n        cls._amul(ybar_data, y_data, xbar_data)\n"),
 ('mul_convolution', 'algopy/utpm/algorithms.py', "                numpy.sum(\n                        x_data[:d+1,:,...] * y_data[d::-1,:,...],", "                numpy.sum(\n                        x_data[:d+1,:,...] * (y_data[d::-1,:,...] if d < 4 else y_data[:d+1,:,...]),"),
]
for name,f,a,b in muts:
    src = open(f).read()
    if src.count(a)<1: print(name,'PATTERN NOT FOUND'); continue
    open(f,'w').write(src.replace(a,b,1))
    r = subprocess.run(['/venv/bin/python','-m','pytest','-q','-p','no:cacheprovider','-x','algopy'],capture_output=True,text=True)
    last = [l for l in r.stdout.splitlines() if 'passed' in l or 'failed' in l][-1:]
    print('%-22s %s'%(name,last))
    open(f,'w').write(src)
