import sys, warnings, time, itertools, hashlib, collections; sys.path.insert(0,'/repo')
warnings.simplefilter('ignore')
import numpy as np, algopy
from algopy import UTPM, CGraph, Function
from algopy.tracer.tracer import is_set

def progA(x): y = x*x[::-1]; z = algopy.sin(y) + 2.0; return algopy.sum(z*x)
def progB(x):
    y = algopy.zeros(2, dtype=x); y[0] = x[0]*x[1]; y[1] = y[0] + x[1]; return y[0]*y[1]
def progT(x): return algopy.sum(algopy.tan(x)*x)
rng = np.random.default_rng(0)
pts = {'a': np.array([0.5,1.25]), 'b': np.array([1.5,0.75])}
hi = {k: rng.integers(-2,3,size=(2,2,2))/2. for k in pts}
def mk(pt, D, P):
    d = np.zeros((D,P,2)); d[0]=pts[pt]; d[1:] = hi[pt][:D-1,:P]; return UTPM(d)
FWD = [(pt,D,P) for pt in 'ab' for (D,P) in [(1,1),(2,1),(3,2)]]
SEEDS = ['unit','dense']
def seed(kind, D, P):
    s = np.zeros((D,P))
    if kind=='unit': s[0]=1
    else: s[:] = (np.arange(D*P).reshape(D,P)+1)/4.*(-1)**np.arange(P)
    return UTPM(s)
def build(prog):
    cg = CGraph(); x = Function(UTPM(np.array([[[0.9,1.1]]]))); y = prog(x); cg.trace_off(); cg.independentFunctionList=[x]; cg.dependentFunctionList=[y]; return cg
def apply(cg, ev, cur):
    if ev[0]=='fwd':
        cg.pushforward([mk(*ev[1])]); cur = ev[1]; return cg.dependentFunctionList[0].x.data.copy(), cur
    if ev[0]=='rev':
        _,D,P = cur; cg.pullback([seed(ev[1],D,P)]); return cg.independentFunctionList[0].xbar.data.copy(), cur
    if ev[0]=='grad':
        return cg.gradient(pts[ev[1]]), (ev[1],1,1)
def enabled(cur):
    evs = [('fwd',f) for f in FWD] + [('grad',p) for p in 'ab']
    if cur is not None: evs += [('rev',s) for s in SEEDS]
    return evs
def digest(cg):
    h = hashlib.sha256()
    bases = {}
    for f in cg.functionList:
        for v in (f.x, f.xbar if is_set(f.xbar) else None, f.setitem[1] if is_set(f.setitem) else None):
            items = v if isinstance(v,tuple) else (v,)
            for it in items:
                a = it.data if isinstance(it,UTPM) else it
                if isinstance(a,np.ndarray):
                    b = a
                    while b.base is not None and isinstance(b.base,np.ndarray): b = b.base
                    bid = bases.setdefault(id(b), len(bases))
                    h.update(repr((a.shape,a.dtype.str,a.strides,bid,a.__array_interface__['data'][0]-b.__array_interface__['data'][0])).encode()); h.update(np.ascontiguousarray(a).tobytes())
                else: h.update(repr(a).encode())
    return h.hexdigest()
def run(prog, hist):
    cg = build(prog); cur=None; out=None
    for ev in hist: out,cur = apply(cg, ev, cur)
    return cg, out, cur
def fresh(prog, ev, cur):
    cg = build(prog); c=None
    if ev[0]=='rev': _,c = apply(cg, ('fwd',cur), None)
    out,_ = apply(cg, ev, c); return out
for name,prog in [('A',progA),('T',progT),('B',progB)]:
    t0=time.time(); seen={}; frontier=collections.deque([()]); cg,_,cur = run(prog,()); seen[digest(cg)]=(); trans=0; viol=[]; maxdepth=0
    while frontier:
        h = frontier.popleft()
        if len(h)>=5: continue
        _,_,cur = run(prog,h)
        for ev in enabled(cur):
            try:
                cg,out,c2 = run(prog, h+(ev,)); exp = fresh(prog, ev, cur); trans+=1
            except Exception as e:
                viol.append((h+(ev,),'EXC')); continue
            if out.shape!=exp.shape or not np.allclose(out,exp,rtol=1e-12,atol=1e-14): viol.append((h+(ev,), 'DIFF'))
            k = digest(cg)
            if k not in seen: seen[k]=h+(ev,); frontier.append(h+(ev,)); maxdepth=max(maxdepth,len(h)+1)
    print(name,'states',len(seen),'transitions',trans,'max new-state depth',maxdepth,'violations',len(viol), 'time %.1fs'%(time.time()-t0))
    if viol: print('   first:', viol[0])
