import sys, warnings, time, itertools; sys.path.insert(0,'/repo')
warnings.simplefilter('ignore')
import numpy as np, algopy
from algopy import UTPM
sys.path.append('/tmp/probe/vendor')
import mpmath as mp
mp.mp.dps = 50
D=8
vals = [0,1,-0.5,2,-1.5,0.75,-2,3]
sizes = [ (D-1)//k + 1 for k in range(1,D)]
grid = list(itertools.product(*[vals[:s] for s in sizes]))
print(sizes, len(grid))
x0 = 0.7
t0=time.time(); c = mp.taylor(mp.tan, mp.mpf(x0), D-1); print('taylor', time.time()-t0)
def compose(c, pat):
    # y(t) = sum_k c_k * (dx(t))^k, dx = sum_{j>=1} pat[j-1] t^j, truncated at D; returns coefficients + abs-majorant scale
    dx = [mp.mpf(0)]+[mp.mpf(p) for p in pat]
    y = [mp.mpf(0)]*D; s=[mp.mpf(0)]*D
    pw = [mp.mpf(1)]+[mp.mpf(0)]*(D-1); apw = list(pw)
    adx = [abs(v) for v in dx]
    for k in range(D):
        for d in range(D): y[d]+=c[k]*pw[d]; s[d]+=abs(c[k])*apw[d]
        npw=[mp.mpf(0)]*D; napw=[mp.mpf(0)]*D
        for i in range(D):
            if pw[i]==0 and apw[i]==0: continue
            for j in range(1,D-i):
                npw[i+j]+=pw[i]*dx[j]; napw[i+j]+=apw[i]*adx[j]
        pw=npw; apw=napw
    return y,s
t0=time.time()
ref = [compose(c,p) for p in grid]
print('compose all', time.time()-t0)
X = np.zeros((D,1,len(grid))); X[0]=x0; X[1:,0,:] = np.array(grid).T
t0=time.time(); Y = algopy.tan(UTPM(X)).data[:,0,:]; print('algopy', time.time()-t0)
worst = max(abs(Y[d,i]-float(ref[i][0][d]))/max(float(ref[i][1][d]),1e-300) if ref[i][1][d]!=0 else abs(Y[d,i]) for i in range(len(grid)) for d in range(D))
print('worst scaled err', worst)
