import sys, warnings, time, itertools; sys.path.insert(0,'/repo')
warnings.simplefilter('ignore')
import numpy as np, algopy
from fractions import Fraction as Fr
from algopy import UTPM
t0=time.time()
mats=[]
for ent in itertools.product([-1,0,1], repeat=9):
    A = np.array(ent,float).reshape(3,3); d = round(np.linalg.det(A))
    if d!=0 and np.linalg.cond(A)<=50: mats.append(A)
print(len(mats),'3x3 matrices', time.time()-t0)
import scipy.linalg
pivs = collections = {}
for A in mats:
    piv = tuple(scipy.linalg.lu_factor(A)[1]); pivs[piv]=pivs.get(piv,0)+1
print('pivot patterns', pivs)
# cost: inv+det+solve with D=4,P=2 packing many matrices along P
D=4; P=len(mats)
rng=np.random.default_rng(0)
X = np.zeros((D,P,3,3)); X[0]=np.array(mats); X[1:] = rng.integers(-2,3,size=(D-1,P,3,3))/2.
t0=time.time(); Ai = algopy.inv(UTPM(X)); d = algopy.det(UTPM(X)); print('algopy inv+det over all', time.time()-t0)
# exact residual for a subset timing
def frac(a): return [[Fr(float(v)) for v in row] for row in a]
t0=time.time(); worst=0
for p in range(0,P,10):
    Af=[frac(X[k,p]) for k in range(D)]; Xf=[frac(Ai.data[k,p]) for k in range(D)]
    for k in range(D):
        for i in range(3):
            for j in range(3):
                r = sum(Af[c][i][m]*Xf[k-c][m][j] for c in range(k+1) for m in range(3)) - (1 if (k==0 and i==j) else 0)
                worst=max(worst,abs(float(r)))
print('exact residual on', len(range(0,P,10)),'matrices', time.time()-t0, 'worst', worst)
