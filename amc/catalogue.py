"""Catalogue of public operations used by C10, C11, C12 and C14.

An entry describes one call form of a public function / operator:
   name     unique label
   fn       callable taking the generated arguments (UTPM instances and constants)
   ref      NumPy/SciPy callable taking the zeroth-coefficient arrays (one direction) - the executable
            specification for C10; None if the zeroth coefficient is not uniquely defined (svd U/V, eig Q)
   args     list of argument descriptors: ('u', shape, structure) UTPM operand, ('c', value) constant
   maxD     largest supported degree (eig: 2), tags
Structure kinds for UTPM operands: 'pos' (entries in (0.25,0.85)), 'any' (mixed sign, away from 0), 'unit'
(|x|<0.9), 'gen' (well-conditioned general matrix needing pivoting), 'sym' (symmetric, separated eigenvalues),
'spd', 'tall', 'wide'.  Every direction gets its OWN base point (different values, and for matrices different
pivot patterns / eigenvalue orderings).
`uncatalogued()` lists public callables of the algopy namespace that are neither catalogued nor excluded with a reason.
"""
import operator

import numpy as np
import scipy.linalg
import scipy.special

from . import env  # noqa: F401
import algopy
from algopy import UTPM

sp = algopy.special


class Entry(object):
    def __init__(self, name, fn, ref, args, maxD=99, tags=(), multi=False, atol=0.0):
        self.name = name
        self.fn = fn
        self.ref = ref
        self.args = args
        self.maxD = maxD
        self.tags = frozenset(tags)
        self.multi = multi      # returns a tuple
        self.atol = atol        # tolerance factor for the zeroth-coefficient comparison (0 = bit-wise)


ENTRIES = []


def E(*a, **k):
    ENTRIES.append(Entry(*a, **k))


def u(shape, kind='pos'):
    return ('u', tuple(shape), kind)


def c(value):
    return ('c', value)


# ------------------------------------------------------------------ elementwise
_EW_SHAPES = [(), (3,), (2, 3)]
_un = [('exp', np.exp, 'any'), ('expm1', np.expm1, 'any'), ('log', np.log, 'pos'), ('log1p', np.log1p, 'pos'), ('sqrt', np.sqrt, 'pos'),
       ('sin', np.sin, 'any'), ('cos', np.cos, 'any'), ('tan', np.tan, 'unit'), ('arcsin', np.arcsin, 'unit'), ('arccos', np.arccos, 'unit'),
       ('arctan', np.arctan, 'any'), ('sinh', np.sinh, 'any'), ('cosh', np.cosh, 'any'), ('tanh', np.tanh, 'any'), ('sign', np.sign, 'any'),
       ('absolute', np.absolute, 'any'), ('square', np.square, 'any'), ('negative', np.negative, 'any'), ('reciprocal', np.reciprocal, 'any'),
       ('conjugate', np.conjugate, 'any'), ('real', np.real, 'any'), ('imag', np.imag, 'any')]
for nm, rf, kd in _un:
    for s in _EW_SHAPES:
        E('%s%s' % (nm, list(s)), (lambda x, nm=nm: getattr(algopy, nm)(x)), rf, [u(s, kd)], tags=('elementwise',))
_spf = [('erf', scipy.special.erf, 'any'), ('erfi', scipy.special.erfi, 'any'), ('dawsn', scipy.special.dawsn, 'any'),
        ('logit', scipy.special.logit, 'pos'), ('expit', scipy.special.expit, 'any'), ('gammaln', scipy.special.gammaln, 'pos'),
        ('psi', scipy.special.psi, 'pos')]
for nm, rf, kd in _spf:
    for s in [(), (3,)]:
        E('special.%s%s' % (nm, list(s)), (lambda x, nm=nm: getattr(sp, nm)(x)), rf, [u(s, kd)], tags=('elementwise', 'special'))
E('special.polygamma(1)', lambda x: sp.polygamma(1, x), lambda x: scipy.special.polygamma(1, x), [u((3,), 'pos')], tags=('elementwise', 'special'), maxD=6)
E('special.hyperu(1.5,0.5)', lambda x: sp.hyperu(1.5, 0.5, x), lambda x: scipy.special.hyperu(1.5, 0.5, x), [u((3,), 'pos')], tags=('elementwise', 'special'), maxD=5)
E('special.botched_clip', lambda x: sp.botched_clip(0.4, 0.8, x), lambda x: np.clip(x, 0.4, 0.8), [u((3,), 'pos')], tags=('elementwise', 'special'))
E('abs()', lambda x: abs(x), np.absolute, [u((3,), 'any')], tags=('elementwise',))
E('neg', operator.neg, operator.neg, [u((2, 3), 'any')], tags=('elementwise',))

# ------------------------------------------------------------------ binary operators and functions
_bin = [('add', operator.add), ('sub', operator.sub), ('mul', operator.mul), ('div', operator.truediv)]
for nm, o in _bin:
    _at = 2 if nm == 'div' else 0        # the quotient is formed as (1/y_0) * x_0: one rounding more than x_0 / y_0
    for sa, sb in [((), ()), ((3,), (3,)), ((2, 3), (3,)), ((2, 1), (1, 3)), ((3,), (2, 3))]:
        E('%s(U%s,U%s)' % (nm, list(sa), list(sb)), o, o, [u(sa, 'any'), u(sb, 'any')], tags=('binary',), atol=_at)
    E('%s(U[3],2.5)' % nm, (lambda x, o=o: o(x, 2.5)), (lambda x, o=o: o(x, 2.5)), [u((3,), 'any')], tags=('binary',), atol=_at)
    E('%s(2.5,U[3])' % nm, (lambda x, o=o: o(2.5, x)), (lambda x, o=o: o(2.5, x)), [u((3,), 'any')], tags=('binary',), atol=_at)
    E('%s(U[2,3],arr[3])' % nm, (lambda x, o=o: o(x, np.array([1.5, -2.0, 0.5]))), (lambda x, o=o: o(x, np.array([1.5, -2.0, 0.5]))), [u((2, 3), 'any')], tags=('binary',), atol=_at)
    E('%s(arr[2,1],U[3])' % nm, (lambda x, o=o: o(np.array([[1.5], [-2.0]]), x)), (lambda x, o=o: o(np.array([[1.5], [-2.0]]), x)), [u((3,), 'any')], tags=('binary',), atol=_at)
_iops = [('iadd', operator.iadd), ('isub', operator.isub), ('imul', operator.imul), ('idiv', operator.itruediv)]
for nm, o in _iops:
    for sa, sb in [((3,), ()), ((2, 3), (3,)), ((2, 3), ()), ((2, 2), (2, 2)), ((3, 2), (2,))]:
        E('%s(U%s,U%s)' % (nm, list(sa), list(sb)), (lambda x, y, o=o: o(UTPM(x.data.copy()), y)), None, [u(sa, 'any'), u(sb, 'any')], tags=('binary', 'inplace'))
for k in [0, 1, 2, 3, -1, -2, 0.5, 2.5]:
    E('pow(U[3],%s)' % k, (lambda x, k=k: x ** k), (lambda x, k=k: x ** k), [u((3,), 'pos')], tags=('binary',), atol=4)
E('pow(U[3],U[3])', operator.pow, operator.pow, [u((3,), 'pos'), u((3,), 'any')], tags=('binary',), atol=16)
E('rpow(2.0,U[3])', lambda x: 2.0 ** x, lambda x: 2.0 ** x, [u((3,), 'any')], tags=('binary',), atol=16)
E('minimum(U[3],U[3])', algopy.minimum, np.minimum, [u((3,), 'any'), u((3,), 'pos')], tags=('binary', 'kink'))
E('maximum(U[3],U[3])', algopy.maximum, np.maximum, [u((3,), 'any'), u((3,), 'pos')], tags=('binary', 'kink'))

# ------------------------------------------------------------------ reductions and shape manipulation
for s in [(3,), (2, 3), (2, 1, 2)]:
    E('sum%s' % list(s), algopy.sum, np.sum, [u(s, 'any')], tags=('shape',))
    for ax in range(-len(s), len(s)):
        E('sum%s axis=%d' % (list(s), ax), (lambda x, ax=ax: algopy.sum(x, axis=ax)), (lambda x, ax=ax: np.sum(x, axis=ax)), [u(s, 'any')], tags=('shape',))
E('prod[3]', algopy.prod, np.prod, [u((3,), 'any')], tags=('shape',), atol=4)
E('prod[]', algopy.prod, np.prod, [u((), 'any')], tags=('shape',), atol=4)
E('prod[2,3]', algopy.prod, np.prod, [u((2, 3), 'any')], tags=('shape',), atol=4)
E('trace[3,3]', algopy.trace, np.trace, [u((3, 3), 'any')], tags=('shape',))
for _s in [(2, 3), (3, 2), (4, 2), (5, 1), (1, 4)]:
    E('trace%s' % list(_s), algopy.trace, np.trace, [u(_s, 'any')], tags=('shape',))
E('reshape[2,3]->(3,2)', lambda x: algopy.reshape(x, (3, 2)), lambda x: np.reshape(x, (3, 2)), [u((2, 3), 'any')], tags=('shape',))
E('reshape[2,3]->(6,)', lambda x: algopy.reshape(x, (6,)), lambda x: np.reshape(x, (6,)), [u((2, 3), 'any')], tags=('shape',))
E('transpose[2,3]', algopy.transpose, np.transpose, [u((2, 3), 'any')], tags=('shape',))
E('T[2,1,2]', lambda x: x.T, lambda x: x.T, [u((2, 1, 2), 'any')], tags=('shape',))
for reps in [2, (2,), (2, 1), (1, 2)]:
    E('tile[2,3] %s' % (reps,), (lambda x, reps=reps: algopy.tile(x, reps)), (lambda x, reps=reps: np.tile(x, reps)), [u((2, 3), 'any')], tags=('shape',))
E('tile[3] (2,2)', lambda x: algopy.tile(x, (2, 2)), lambda x: np.tile(x, (2, 2)), [u((3,), 'any')], tags=('shape',))
E('diag[3]', algopy.diag, np.diag, [u((3,), 'any')], tags=('shape',))
E('diag[3,3]', algopy.diag, np.diag, [u((3, 3), 'any')], tags=('shape',))
E('triu[3,3]', algopy.triu, np.triu, [u((3, 3), 'any')], tags=('shape',))
E('tril[2,3]', algopy.tril, np.tril, [u((2, 3), 'any')], tags=('shape',))
E('symvec[3,3]', algopy.symvec, lambda a: algopy.utils.symvec(a), [u((3, 3), 'any')], tags=('shape',))
E('vecsym[6]', algopy.vecsym, lambda v: algopy.utils.vecsym(v), [u((6,), 'any')], tags=('shape',))
E('zeros_like[2,3]', algopy.zeros_like, np.zeros_like, [u((2, 3), 'any')], tags=('shape',))
E('ones_like[2,3]', algopy.ones_like, np.ones_like, [u((2, 3), 'any')], tags=('shape',))
E('zeros((2,2),dtype=U)', lambda x: algopy.zeros((2, 2), dtype=x), lambda x: np.zeros((2, 2)), [u((3,), 'any')], tags=('shape',))
E('ones(3,dtype=U)', lambda x: algopy.ones(3, dtype=x), lambda x: np.ones(3), [u((), 'any')], tags=('shape',))
# the shape argument as a NumPy integer scalar (numpy.prod(...), an index-array entry) instead of a Python int
for _nm, _n in (('np.int64(3)', np.int64(3)), ('np.intp(2)', np.intp(2)), ('np.prod', np.prod((2, 2))), ('np.int32(4)', np.int32(4))):
    E('zeros(%s,dtype=U)' % _nm, (lambda x, n=_n: algopy.zeros(n, dtype=x)), (lambda x, n=_n: np.zeros(n)), [u((2,), 'any')], tags=('shape',))
    E('ones(%s,dtype=U)' % _nm, (lambda x, n=_n: algopy.ones(n, dtype=x)), (lambda x, n=_n: np.ones(n)), [u((2,), 'any')], tags=('shape',))
E('getitem[2,3][1,::-1]', lambda x: x[1, ::-1], lambda x: x[1, ::-1], [u((2, 3), 'any')], tags=('shape',))
E('fft[2,3]', algopy.fft.fft, np.fft.fft, [u((2, 3), 'any')], tags=('shape', 'fft'))
E('fft[2,3] axis=0', lambda x: algopy.fft.fft(x, axis=0), lambda x: np.fft.fft(x, axis=0), [u((2, 3), 'any')], tags=('shape', 'fft'))
E('ifft[2,3]', algopy.fft.ifft, np.fft.ifft, [u((2, 3), 'any')], tags=('shape', 'fft'))
for _ax in (-1, -2, 1):
    for _n in (None, 2, 4):
        E('fft[2,3] axis=%d n=%s' % (_ax, _n), (lambda x, a=_ax, n=_n: algopy.fft.fft(x, n=n, axis=a)), (lambda x, a=_ax, n=_n: np.fft.fft(x, n=n, axis=a)), [u((2, 3), 'any')], tags=('shape', 'fft'))
        E('ifft[2,3] axis=%d n=%s' % (_ax, _n), (lambda x, a=_ax, n=_n: algopy.fft.ifft(x, n=n, axis=a)), (lambda x, a=_ax, n=_n: np.fft.ifft(x, n=n, axis=a)), [u((2, 3), 'any')], tags=('shape', 'fft'), atol=4)
for _ax in (-1, -2, -3, 0, 1):
    E('fft[2,3,2] axis=%d' % _ax, (lambda x, a=_ax: algopy.fft.fft(x, axis=a)), (lambda x, a=_ax: np.fft.fft(x, axis=a)), [u((2, 3, 2), 'any')], tags=('shape', 'fft'))
    E('ifft[2,3,2] axis=%d' % _ax, (lambda x, a=_ax: algopy.fft.ifft(x, axis=a)), (lambda x, a=_ax: np.fft.ifft(x, axis=a)), [u((2, 3, 2), 'any')], tags=('shape', 'fft'), atol=4)
# index kinds beyond basic slices: lists, integer arrays, boolean masks (NumPy's advanced indexing; result is a copy)
for _nm, _sh, _ix in [('[[0,2]]', (4, 5), [0, 2]), ('[[2,0]]', (3, 4, 2), [2, 0]), ('[[1]]', (3,), [1]), ('[arr[0,2]]', (4, 5), np.array([0, 2])),
                      ('[[True,False,True]]', (3, 2), [True, False, True]), ('[mask]', (3, 2), np.array([False, True, True])),
                      ('[[0,2],1]', (4, 5), ([0, 2], 1)), ('[1,[0,2]]', (4, 5), (1, [0, 2])), ('[:, [0,2]]', (4, 5), (slice(None), [0, 2])),
                      ('[[0,1],[1,0]]', (3, 2), ([0, 1], [1, 0]))]:
    E('getitem%s%s' % (list(_sh), _nm), (lambda x, ix=_ix: x[ix]), (lambda x, ix=_ix: x[ix]), [u(_sh, 'any')], tags=('shape', 'advanced-index'))

# ------------------------------------------------------------------ linear algebra
for sa, sb in [((3,), (3,)), ((2, 3), (3,)), ((3,), (3, 2)), ((2, 3), (3, 2)), ((2, 2, 3), (3,)), ((2, 3), (2, 3, 2)), ((2, 2, 3), (3, 2)), ((3, 2, 3), (3, 2)), ((3, 1, 3), (3,))]:
    E('dot(U%s,U%s)' % (list(sa), list(sb)), algopy.dot, np.dot, [u(sa, 'any'), u(sb, 'any')], tags=('linalg',), atol=8)
def _carr(shape, salt):
    n = int(np.prod(shape, dtype=int))
    return ((np.arange(n) * 5 + salt) % 11 - 5.0).reshape(shape) / 2.0


# every rank pair once more with ONE plain-array operand (left and right), including shapes whose leading axes are equal
for sa, sb in [((3,), (3,)), ((2, 3), (3,)), ((3,), (3, 2)), ((2, 3), (3, 2)), ((2, 2, 3), (3,)), ((2, 3), (2, 3, 2)), ((2, 2, 3), (3, 2)),
               ((3,), (3, 3, 2)), ((2, 3), (3, 3, 2)), ((3,), (2, 3, 2)), ((2, 2, 3), (2, 3, 3)), ((3, 3, 3), (3, 3, 3))]:
    E('dot(arr%s,U%s)' % (list(sa), list(sb)), (lambda y, sa=sa: algopy.dot(_carr(sa, 1), y)), (lambda y, sa=sa: np.dot(_carr(sa, 1), y)),
      [u(sb, 'any')], tags=('linalg',), atol=8)
    E('dot(U%s,arr%s)' % (list(sa), list(sb)), (lambda x, sb=sb: algopy.dot(x, _carr(sb, 2))), (lambda x, sb=sb: np.dot(x, _carr(sb, 2))),
      [u(sa, 'any')], tags=('linalg',), atol=8)
for sa, sb in [((3,), (3, 3, 2)), ((2, 3), (3, 3, 2)), ((2, 2, 3), (2, 3, 3)), ((3, 3, 3), (3, 3, 3))]:
    E('dot(U%s,U%s)' % (list(sa), list(sb)), algopy.dot, np.dot, [u(sa, 'any'), u(sb, 'any')], tags=('linalg',), atol=8)
_cm = np.array([[1.0, -2.0], [0.5, 1.5], [2.0, 0.25]])
E('dot(U[2,3],arr[3,2])', lambda x: algopy.dot(x, _cm), lambda x: np.dot(x, _cm), [u((2, 3), 'any')], tags=('linalg',), atol=8)
E('dot(arr[2,3],U[3,2])', lambda x: algopy.dot(_cm.T, x), lambda x: np.dot(_cm.T, x), [u((3, 2), 'any')], tags=('linalg',), atol=8)
E('dot(arr[3],U[3])', lambda x: algopy.dot(_cm[:, 0], x), lambda x: np.dot(_cm[:, 0], x), [u((3,), 'any')], tags=('linalg',), atol=8)
E('outer(U[3],U[2])', algopy.outer, np.outer, [u((3,), 'any'), u((2,), 'any')], tags=('linalg',))
E('outer(U[3],arr[2])', lambda x: algopy.outer(x, np.array([1.5, -2.0])), lambda x: np.outer(x, np.array([1.5, -2.0])), [u((3,), 'any')], tags=('linalg',))
E('outer(arr[2],U[3])', lambda x: algopy.outer(np.array([1.5, -2.0]), x), lambda x: np.outer(np.array([1.5, -2.0]), x), [u((3,), 'any')], tags=('linalg',))
for n in (2, 3):
    E('inv[%d]' % n, algopy.inv, np.linalg.inv, [u((n, n), 'gen')], tags=('linalg',), atol=64)
    E('det[%d]' % n, algopy.det, np.linalg.det, [u((n, n), 'gen')], tags=('linalg',), atol=64)
    E('solve(U[%d,%d],U[%d,2])' % (n, n, n), algopy.solve, np.linalg.solve, [u((n, n), 'gen'), u((n, 2), 'any')], tags=('linalg',), atol=64)
    E('solve(U[%d,%d],arr)' % (n, n), (lambda a, n=n: algopy.solve(a, np.eye(n)[:, :2] * 2.0)), (lambda a, n=n: np.linalg.solve(a, np.eye(n)[:, :2] * 2.0)), [u((n, n), 'gen')], tags=('linalg',), atol=64)
    E('solve(arr,U[%d,2])' % n, (lambda b, n=n: algopy.solve(np.eye(n)[::-1] * 2.0 + 0.5, b)), (lambda b, n=n: np.linalg.solve(np.eye(n)[::-1] * 2.0 + 0.5, b)), [u((n, 2), 'any')], tags=('linalg',), atol=64)
    E('logdet[%d]' % n, algopy.logdet, lambda a: np.linalg.slogdet(a)[1], [u((n, n), 'spd')], tags=('linalg',), atol=64)
    E('cholesky[%d]' % n, algopy.cholesky, np.linalg.cholesky, [u((n, n), 'spd')], tags=('linalg', 'decomp'), atol=64)
    E('qr[%d,%d]' % (n, n), algopy.qr, np.linalg.qr, [u((n, n), 'gen')], tags=('linalg', 'decomp'), multi=True, atol=64)
    E('lu[%d]' % n, algopy.lu, scipy.linalg.lu, [u((n, n), 'gen')], tags=('linalg', 'decomp'), multi=True, atol=64)
    E('eigh[%d]' % n, algopy.eigh, None, [u((n, n), 'sym')], tags=('linalg', 'decomp'), multi=True, atol=64)
    E('eigh[%d] values' % n, lambda a: algopy.eigh(a)[0], np.linalg.eigvalsh, [u((n, n), 'sym')], tags=('linalg', 'decomp'), atol=64)
    E('svd[%d,%d] values' % (n, n), lambda a: algopy.svd(a)[1], lambda a: np.linalg.svd(a, compute_uv=False), [u((n, n), 'gen')], tags=('linalg', 'decomp'), atol=256)
    E('svd[%d,%d]' % (n, n), algopy.svd, None, [u((n, n), 'gen')], tags=('linalg', 'decomp'), multi=True)
    E('eig[%d] values' % n, lambda a: algopy.eig(a)[0], None, [u((n, n), 'sym')], tags=('linalg', 'decomp'), maxD=2)
E('qr[3,2]', algopy.qr, np.linalg.qr, [u((3, 2), 'tall')], tags=('linalg', 'decomp'), multi=True, atol=64)
E('qr[2,3]', algopy.qr, np.linalg.qr, [u((2, 3), 'wide')], tags=('linalg', 'decomp'), multi=True, atol=64)
E('qr_full[3,2]', algopy.qr_full, scipy.linalg.qr, [u((3, 2), 'tall')], tags=('linalg', 'decomp'), multi=True, atol=64)
E('svd[2,3] values', lambda a: algopy.svd(a)[1], lambda a: np.linalg.svd(a, compute_uv=False), [u((2, 3), 'wide')], tags=('linalg', 'decomp'), atol=256)
E('expm[3]', lambda a: algopy.expm(a * 0.25), lambda a: scipy.linalg.expm(a * 0.25), [u((3, 3), 'any')], tags=('linalg',), atol=1e4)

BY_NAME = dict((e.name, e) for e in ENTRIES)

EXCLUDED = {
    'CGraph': 'class (C03-C06)', 'Function': 'class (C03-C06)', 'UTPM': 'class', 'UTP': 'alias of UTPM', 'test': 'test runner',
    'NumpyVersion': 'version helper', 'init_UTPM_jacobian': 'nested-AD helper, not an overloaded NumPy function',
    'extract_UTPM_jacobian': 'nested-AD helper', 'coeff_op': 'C17', 'eigh1': 'internal helper returning block structure',
    'expm_pade': 'covered through expm', 'expm_higham_2005': 'covered through expm', 'pow': 'numpy.pow alias; covered through ** entries',
    'dpm_hyp1f1': 'hypergeometric family: depends on mpmath / SciPy functions that the library itself documents as removed (nthderiv comments them out); not part of C01/C10 statements',
    'dpm_hyp2f0': 'see dpm_hyp1f1', 'hyp0f1': 'see dpm_hyp1f1', 'hyp1f1': 'see dpm_hyp1f1', 'hyp2f0': 'see dpm_hyp1f1',
    'numpy': 'module', 'scipy': 'module', 'warnings': 'module', 'os': 'module', 'string': 'module', 'math': 'module',
}


def uncatalogued():
    names = set()
    import importlib
    mods = [(importlib.import_module(m), pref) for m, pref in (('algopy.globalfuncs', ''), ('algopy.linalg.linalg', ''),
                                                              ('algopy.linalg.compound', ''), ('algopy.special.special', 'special.'),
                                                              ('algopy.fft.fft', 'fft.'))]
    for mod, pref in mods:
        for nm in dir(mod):
            if nm.startswith('_'):
                continue
            obj = getattr(mod, nm)
            if callable(obj) and getattr(obj, '__module__', '').startswith('algopy') and not isinstance(obj, type):
                names.add(pref + nm)
    covered = ' '.join(e.name for e in ENTRIES)
    out = []
    for nm in sorted(names):
        base = nm.split('.')[-1]
        if base in EXCLUDED or nm in EXCLUDED:
            continue
        if base in covered:
            continue
        out.append(nm)
    return out


# ------------------------------------------------------------------ argument generation
def _vals(n, off, lo, hi):
    k = (np.arange(n) * 37 + off * 11) % 101
    return lo + (hi - lo) * (k / 100.0)


def base_point(shape, kind, p, seed):
    """zeroth coefficient for direction p: deterministic, different for every direction"""
    n = int(np.prod(shape, dtype=int))
    off = 13 * p + 5 * seed + 1
    if kind == 'pos':
        a = _vals(n, off, 0.27, 0.83)
        a = np.where(np.abs(a - 0.4) < 0.03, a + 0.06, a)
        a = np.where(np.abs(a - 0.8) < 0.03, a - 0.06, a)
        return a.reshape(shape)
    if kind == 'unit':
        a = _vals(n, off, -0.85, 0.85)
        return np.where(np.abs(a) < 0.1, a + 0.3, a).reshape(shape)
    if kind == 'any':
        a = _vals(n, off, -1.6, 1.6)
        a = np.where(np.abs(a) < 0.2, a + 0.5, a)
        b = _vals(n, off + 3, 0.27, 0.83)
        a = np.where(np.abs(a - b) < 0.05, a + 0.1, a)
        return a.reshape(shape)
    if kind in ('gen', 'tall', 'wide'):
        a = _vals(n, off, -0.5, 0.5).reshape(shape)
        r, cc = shape
        # a permuted, scaled "diagonal" that differs per direction: different pivot patterns
        perms = [[0, 1, 2], [1, 2, 0], [2, 0, 1], [1, 0, 2], [0, 2, 1], [2, 1, 0]]
        perm = [q for q in perms[(p + seed) % 6] if q < r][:min(r, cc)]
        for j, i in enumerate(perm):
            if j < cc:
                a[i, j] += [2.0, -3.0, 4.5][j % 3]
        return a
    if kind in ('sym', 'spd'):
        r = shape[0]
        a = _vals(n, off, -0.4, 0.4).reshape(shape)
        a = a + a.T
        d = np.array([0.0, 2.5, 5.5, 9.0][:r])
        if kind == 'spd':
            a = a.dot(a.T) + np.diag(d + 1.0)
        else:
            d = np.roll(d, p)          # different eigenvalue ordering per direction
            a = a + np.diag(d)
        return a
    raise ValueError(kind)


def higher(shape, kind, D, P, seed, salt):
    rng = np.random.default_rng(977 * seed + salt)
    h = np.round(rng.uniform(-1, 1, size=(D - 1, P) + tuple(shape)) * 16) / 16.0
    if kind in ('sym', 'spd') and len(shape) == 2:
        h = h + np.swapaxes(h, -1, -2)
    return h


VARIANTS = ['dense', 'arg0:order1=0', 'arg0:const', 'arg1:order1=0', 'arg1:const', 'arg0:high*2^31', 'arg0:top=nonfinite', 'arg1:top=nonfinite']


def make_args(entry, D, P, seed=0, variant='dense'):
    """list of arguments (UTPM / constants) for the entry.  variant selects a SUPPORT pattern of the higher coefficients:
    'argK:order1=0' zeroes the first-order coefficient of the K-th polynomial argument (higher ones stay), 'argK:const'
    zeroes all its higher coefficients; base points always differ from direction to direction."""
    out = []
    for i, a in enumerate(entry.args):
        if a[0] == 'c':
            out.append(a[1])
            continue
        _, shape, kind = a
        data = np.zeros((D, P) + shape)
        for p in range(P):
            data[0, p] = base_point(shape, kind, p + 3 * i, seed)
        if D > 1:
            data[1:] = higher(shape, kind, D, P, seed, i)
        nu = sum(1 for q in entry.args[:i] if q[0] == 'u')
        if variant == 'arg%d:order1=0' % nu and D > 1:
            data[1] = 0
        if variant == 'arg%d:const' % nu and D > 1:
            data[1:] = 0
        if variant == 'arg%d:top=nonfinite' % nu and D > 1:
            # the LAST coefficient holds inf (direction 0) / nan (last direction) in one element: all lower orders of any
            # result are defined by the lower input orders alone and must not see it
            flat = data.reshape(D, P, -1)
            flat[D - 1, 0, 0] = np.inf
            flat[D - 1, P - 1, flat.shape[2] - 1] = np.nan
        if variant == 'arg%d:high*2^31' % nu and D > 2:
            data[2:] *= 2.0 ** 31        # huge coefficients of order >= 2 must not influence orders 0 and 1
        out.append(UTPM(data))
    return out


def variants_for(entry, D, nonfinite=False):
    nu = sum(1 for q in entry.args if q[0] == 'u')
    if D < 2:
        return ['dense']
    out = [v for v in VARIANTS if v == 'dense' or (int(v[3]) < nu and 'high' not in v and (nonfinite or 'nonfinite' not in v))]
    if D > 2 and entry.tags & {'decomp', 'linalg'}:
        out.append('arg0:high*2^31')
    return out


def outputs(res):
    """normalise a result to a list of UTPM / arrays"""
    if isinstance(res, tuple):
        return list(res)
    return [res]
