"""C16  Closed-form n-th derivatives are the true derivatives.

Space: every name exported by algopy.nthderiv (module __all__, baseline configuration without mpmath) x order n in
0..Nmax x the grid {k/4 : -12 <= k <= 12} intersected with the declared domain minus singularities / jump points
(0 and the integers ARE included where the function is smooth there) x extra parameters (hyperu (a,b) menu incl.
negative a, polygamma m, clip bounds) x call forms (Python float, 0-d array, 1-d array holding the whole grid, out=).
Oracle: mpmath.diff of mpmath's own implementation of f at 60 digits (cross-checked at 90 digits); piecewise
constant / linear functions against their exact derivatives.  Tolerance 1e-8 x max(1,|ref|) (closed forms lose digits
by cancellation at high n; measured worst is reported; an error in a formula is O(1) relative).
"""
import numpy as np

from .. import env
import algopy
import algopy.nthderiv.nthderiv as ND
from ..ref import mpref

mp = mpref.mp
ID = 'C16'
RULE = ('cases = (function, parameters, order n, grid point, call form); array form evaluates the whole grid in one '
        'call; evaluations = values compared; non-trivial = distinct (function, parameters, n, point) with a non-zero '
        'reference derivative')
ASSUMPTIONS = ['mpmath.diff at 60/90 digits is the true derivative', 'grid of quarter-integers in [-3,3] intersected with the domain']
NMAX = {'quick': 6, 'thorough': 10}
TOL = 1e-8
GRID = [k / 4.0 for k in range(-12, 13)]


def bounds(tier):
    return {'n_max': NMAX[tier], 'grid': 'k/4, |k|<=12', 'call_forms': ['float', '0-d', '1-d', 'out=', 'out=x (in place)', 'one array asked for orders 0..n in turn'], 'argument_preserved': True}


def specs():
    """name -> list of (label, extra args tuple, mp function, domain predicate, exact-derivative function or None)"""
    S = {}

    def add(name, g, dom, extras=(), label=None, exact=None):
        S.setdefault(name, []).append((label or name, tuple(extras), g, dom, exact))
    allx = lambda x: True
    pos = lambda x: x > 0
    add('exp', mp.exp, allx)
    add('exp2', lambda x: mp.mpf(2) ** x, allx)
    add('expm1', mp.expm1, allx)
    add('log', mp.log, pos)
    add('log2', lambda x: mp.log(x) / mp.log(2), pos)
    add('log10', mp.log10, pos)
    add('log1p', mp.log1p, lambda x: x > -1)
    add('sqrt', mp.sqrt, pos)
    add('square', lambda x: x * x, allx)
    add('negative', lambda x: -x, allx)
    add('reciprocal', lambda x: 1 / x, lambda x: x != 0)
    add('sin', mp.sin, allx)
    add('cos', mp.cos, allx)
    add('arcsin', mp.asin, lambda x: abs(x) < 1)
    add('arccos', mp.acos, lambda x: abs(x) < 1)
    add('arctan', mp.atan, allx)
    add('sinh', mp.sinh, allx)
    add('cosh', mp.cosh, allx)
    add('arcsinh', mp.asinh, allx)
    add('arccosh', mp.acosh, lambda x: x > 1)
    add('arctanh', mp.atanh, lambda x: abs(x) < 1)
    add('erf', mp.erf, allx)
    add('erfi', mp.erfi, allx)
    add('gammaln', mp.loggamma, pos)
    add('psi', mp.digamma, pos)
    for m in (0, 1, 2, 3):
        add('polygamma', (lambda x, m=m: mp.polygamma(m, x)), pos, extras=(m,), label='polygamma(m=%d)' % m)
    # a = -k (U is a polynomial of degree k: the k-th derivative is the constant (-1)^k k!, higher ones vanish) and a = 0
    for a, b in [(1.5, 0.5), (0.5, 1.5), (1.0, 2.0), (-0.5, 1.5), (-2.5, 0.5), (2.0, 3.0), (-1.0, 0.5), (-2.0, 1.5), (-3.0, 2.0), (-4.0, 0.5), (0.0, 1.5)]:
        add('hyperu', (lambda x, a=a, b=b: mp.hyperu(a, b, x)), pos, extras=(a, b), label='hyperu(a=%s,b=%s)' % (a, b))
    # piecewise constant / linear: exact derivatives
    step = lambda f: (lambda x, n: (f(x) if n == 0 else 0.0))
    add('rint', None, lambda x: (2 * x) % 2 != 1, exact=step(lambda x: float(np.rint(x))))
    for nm, f in [('fix', np.fix), ('floor', np.floor), ('ceil', np.ceil), ('trunc', np.trunc)]:
        add(nm, None, lambda x: x != int(x), exact=step(lambda x, f=f: float(f(x))))
    add('sign', None, lambda x: x != 0, exact=step(lambda x: float(np.sign(x))))
    add('absolute', None, lambda x: x != 0, exact=lambda x, n: abs(x) if n == 0 else (float(np.sign(x)) if n == 1 else 0.0))
    for lo, hi in [(-0.6, 0.9), (0.3, 2.1)]:
        add('clip', None, lambda x, lo=lo, hi=hi: x != lo and x != hi, extras=(lo, hi), label='clip(%s,%s)' % (lo, hi),
            exact=lambda x, n, lo=lo, hi=hi: (min(max(x, lo), hi) if n == 0 else ((1.0 if lo < x < hi else 0.0) if n == 1 else 0.0)))
    return S


def exported():
    names = [n for n in ND.__all__ if n != 'np_filled_like']
    return names


def units(tier, seed):
    S = specs()
    us = []
    for name in exported():
        if name not in S:
            us.append({'kind': 'uncovered', 'name': name, 'tier': tier, 'seed': seed})
            continue
        for i in range(len(S[name])):
            for n in range(0, NMAX[tier] + 1):
                us.append({'kind': 'fn', 'name': name, 'i': i, 'n': n, 'tier': tier, 'seed': seed})
    us.append({'kind': 'history', 'tier': tier, 'seed': seed})
    us.append({'kind': 'tiny', 'tier': tier, 'seed': seed})
    us.append({'kind': 'high', 'tier': tier, 'seed': seed})
    return us


def mpdiff(g, x, n):
    old = mp.mp.dps
    try:
        mp.mp.dps = 60
        a = mp.diff(g, mp.mpf(x), n) if n else g(mp.mpf(x))
        mp.mp.dps = 90
        b = mp.diff(g, mp.mpf(x), n) if n else g(mp.mpf(x))
        if abs(a - b) > mp.mpf(10) ** -20 * (1 + abs(b)):
            raise mpref.OracleError('mp.diff not self-consistent')
        return float(mp.re(b))
    finally:
        mp.mp.dps = old


def run_unit(u):
    if u['kind'] == 'history':
        return run_history(u)
    if u['kind'] == 'tiny':
        return run_tiny(u)
    if u['kind'] == 'high':
        return run_high_orders(u)
    out = {'evals': 0, 'nontrivial': 0, 'fails': [], 'samples': [], 'maxima': {}, 'counters': {}, 'lists': {}}
    if u['kind'] == 'uncovered':
        out['lists']['exported_but_not_covered'] = [u['name']]
        out['evals'] = 0
        return out
    label, extras, g, dom, exact = specs()[u['name']][u['i']]
    n = u['n']
    f = getattr(ND, u['name'])
    pts0 = [x for x in GRID if dom(x)]
    pts, refs = [], []
    for x in pts0:
        try:
            r = exact(x, n) if exact is not None else mpdiff(g, x, n)
        except Exception:
            out['counters']['oracle_unavailable'] = out['counters'].get('oracle_unavailable', 0) + 1
            continue
        pts.append(x)
        refs.append(r)
    if not pts:
        return out
    refs = np.array(refs)
    arr = np.array(pts)

    def fail(form, x, got, ref):
        out['fails'].append({'sig': 'C16|%s|n=%d|%s' % (label, n, form),
                             'case': dict(u), 'detail': {'x': x, 'got': got, 'expected': ref, 'form': form}})
    forms = {}
    def preserved(form, a):
        # "at that point": the caller's array still holds the points after the call (the consumer _eval_slow_generic asks for
        # order after order on the same array)
        out['evals'] += 1
        if not np.array_equal(a, arr):
            k = int(np.argmax(a != arr))
            fail(form + ' argument modified', pts[k], float(a[k]), float(arr[k]))
    try:
        a1 = arr.copy()
        forms['1-d'] = np.asarray(f(*(extras + (a1,)), n=n), dtype=float)
        preserved('1-d', a1)
    except Exception as e:
        fail('1-d raises', None, str(e)[:150], None)
    try:
        o = np.full(arr.shape, np.nan)
        a2 = arr.copy()
        r = f(*(extras + (a2,)), out=o, n=n)
        forms['out='] = np.asarray(o if r is None or r is o else r, dtype=float)
        preserved('out=', a2)
    except Exception as e:
        fail('out= raises', None, str(e)[:150], None)
    try:
        # 2-D arguments that are not C-ordered (transposed view, Fortran order), with and without out=
        m = len(pts) - len(pts) % 2
        if m >= 4:
            base2 = np.array(pts[:m]).reshape(2, m // 2)
            ref2 = refs[:m].reshape(2, m // 2)
            for lay, x2 in (('transposed view', np.ascontiguousarray(base2.T).T), ('Fortran order', np.asfortranarray(base2))):
                o2 = np.full(x2.shape, np.nan)
                r2 = f(*(extras + (x2,)), out=o2, n=n)
                g2 = np.asarray(o2 if r2 is None or r2 is o2 else r2, dtype=float)
                g3 = np.asarray(f(*(extras + (x2,)), n=n), dtype=float)
                out['evals'] += 2 * m
                for form, gg in (('out= with a %s argument' % lay, g2), ('%s argument' % lay, g3)):
                    e2 = np.abs(gg - ref2) / np.maximum(1.0, np.abs(ref2)) if gg.shape == ref2.shape else np.array([np.inf])
                    if not np.all(e2 <= TOL):
                        fail(form, None, np.asarray(gg).ravel()[:4].tolist(), ref2.ravel()[:4].tolist())
    except Exception as e:
        fail('2-D layout raises', None, str(e)[:150], None)
    try:
        # the caller asks for the result to be written over the argument itself
        a4 = arr.copy()
        r = f(*(extras + (a4,)), out=a4, n=n)
        forms['out=x (in place)'] = np.asarray(a4 if r is None or r is a4 else r, dtype=float)
    except Exception as e:
        fail('out=x raises', None, str(e)[:150], None)
    try:
        # one array object asked for every order 0..n in turn, then order n again
        a3 = arr.copy()
        for k in list(range(n + 1)) + [n]:
            last = f(*(extras + (a3,)), n=k)
        forms['1-d after orders 0..n on the same array'] = np.asarray(last, dtype=float)
    except Exception as e:
        fail('same-array sequence raises', None, str(e)[:150], None)
    try:
        forms['float'] = np.array([float(f(*(extras + (float(x),)), n=n)) for x in pts])
    except Exception as e:
        fail('float raises', None, str(e)[:150], None)
    try:
        zs = [np.array(float(x)) for x in pts]
        forms['0-d'] = np.array([float(np.asarray(f(*(extras + (z,)), n=n))) for z in zs])
        out['evals'] += 1
        if not np.array_equal(np.array([float(z) for z in zs]), arr):
            fail('0-d argument modified', None, [float(z) for z in zs][:4], pts[:4])
    except Exception as e:
        fail('0-d raises', None, str(e)[:150], None)
    for form, got in forms.items():
        out['evals'] += len(pts)
        if got.shape != refs.shape:
            fail(form + ' shape', None, list(got.shape), list(refs.shape))
            continue
        err = np.abs(got - refs) / np.maximum(1.0, np.abs(refs))
        bad = ~(err <= TOL)
        fin = err[np.isfinite(err)]
        if fin.size:
            out['maxima']['scaled_error'] = max(out['maxima'].get('scaled_error', 0.0), float(fin.max()))
        if bad.any():
            k = int(np.argmax(bad))
            fail(form, pts[k], float(got[k]), float(refs[k]))
    out['nontrivial'] = int(np.count_nonzero(refs))
    if n == 3:
        out['samples'] = [{'function': label, 'n': n, 'points': pts[:6], 'reference': refs[:6].tolist()}]
    return out


def run_high_orders(u):
    """orders far beyond the enumerated range (n = 15 ... 30: factorials beyond 2^63, long recurrences) for the functions whose
    n-th derivative has an elementary closed form; exact rational / mpmath reference"""
    out = {'evals': 0, 'nontrivial': 0, 'fails': [], 'samples': [], 'maxima': {}, 'counters': {}, 'lists': {}}
    mpf = mp.mpf
    fac = mp.factorial
    closed = {
        'reciprocal': lambda x, n: (-1) ** n * fac(n) / mpf(x) ** (n + 1),
        'log': lambda x, n: (-1) ** (n - 1) * fac(n - 1) / mpf(x) ** n,
        'log2': lambda x, n: (-1) ** (n - 1) * fac(n - 1) / mpf(x) ** n / mp.log(2),
        'log10': lambda x, n: (-1) ** (n - 1) * fac(n - 1) / mpf(x) ** n / mp.log(10),
        'log1p': lambda x, n: (-1) ** (n - 1) * fac(n - 1) / (1 + mpf(x)) ** n,
        'exp': lambda x, n: mp.exp(mpf(x)),
        'exp2': lambda x, n: mp.log(2) ** n * mpf(2) ** mpf(x),
        'sin': lambda x, n: mp.sin(mpf(x) + n * mp.pi / 2),
        'cos': lambda x, n: mp.cos(mpf(x) + n * mp.pi / 2),
        'sinh': lambda x, n: mp.sinh(mpf(x)) if n % 2 == 0 else mp.cosh(mpf(x)),
        'cosh': lambda x, n: mp.cosh(mpf(x)) if n % 2 == 0 else mp.sinh(mpf(x)),
        'sqrt': lambda x, n: mp.rf(mpf(1.5) - n, n) * mpf(x) ** (mpf(0.5) - n),
    }
    pts = [0.75, 1.25, 2.5]
    old = mp.mp.dps
    mp.mp.dps = 60
    try:
        for name, cf in closed.items():
            f = getattr(ND, name, None)
            if f is None:
                continue
            for n in (12, 15, 18, 20, 21, 22, 23, 25, 30):
                refs = np.array([float(cf(x, n)) for x in pts])
                try:
                    got = np.asarray(f(np.array(pts), n=n), dtype=float)
                except Exception as ex:
                    out['fails'].append({'sig': 'C16|%s|high order|raises' % name, 'case': dict(u, name=name, n=n), 'detail': {'error': str(ex)[:150]}})
                    break
                out['evals'] += len(pts)
                out['nontrivial'] += len(pts)
                rel = np.abs(got - refs) / np.abs(refs)
                out['maxima']['relative_error_high_orders'] = max(out['maxima'].get('relative_error_high_orders', 0.0), float(np.nanmax(rel)))
                if not np.all(rel <= 1e-9):
                    k = int(np.argmax(~(rel <= 1e-9)))
                    out['fails'].append({'sig': 'C16|%s|high order n%s20' % (name, '<=' if n <= 20 else '>'), 'case': dict(u, name=name, n=n),
                                         'detail': {'x': pts[k], 'n': n, 'got': float(got[k]), 'expected': float(refs[k])}})
                    break
    finally:
        mp.mp.dps = old
    return out


TINY = [1e-7, -3e-7, 2e-9, 1e-12]
# closed forms that add an O(1) constant to x (sin / cos: phase shift n pi / 2) or subtract two O(1) powers (arctanh) reach an
# ABSOLUTE accuracy of 1e-16 by construction; relative accuracy near the zeros of their derivatives is not claimed
TINY_NOT_CLAIMED = ('sin', 'cos', 'arctanh')


def run_tiny(u):
    """base points very close to 0 (inside the domain): a derivative whose true value is tiny there (odd-order derivatives of
    even functions and vice versa) must be right to RELATIVE accuracy, not merely small - closed forms that subtract nearly
    equal quantities lose exactly that"""
    out = {'evals': 0, 'nontrivial': 0, 'fails': [], 'samples': [], 'maxima': {}, 'counters': {}, 'lists': {}}
    S = specs()
    for name in [n for n in exported() if n in S]:
        if name in TINY_NOT_CLAIMED:
            continue
        for i, (label, extras, g, dom, exact) in enumerate(S[name]):
            if exact is not None:
                continue
            pts = [x for x in TINY if dom(x)]
            if not pts:
                continue
            for n in range(0, 6):
                try:
                    refs = np.array([mpdiff(g, x, n) for x in pts])
                except Exception:
                    out['counters']['oracle_unavailable'] = out['counters'].get('oracle_unavailable', 0) + 1
                    continue
                try:
                    got = np.asarray(getattr(ND, name)(*(extras + (np.array(pts),)), n=n), dtype=float)
                except Exception as ex:
                    out['fails'].append({'sig': 'C16|%s|tiny argument|raises' % label, 'case': dict(u, name=name, i=i, n=n), 'detail': {'error': str(ex)[:150]}})
                    break
                out['evals'] += len(pts)
                out['nontrivial'] += int(np.count_nonzero(refs))
                err = np.abs(got - refs)
                tol = 1e-9 * np.abs(refs) + 1e-290
                rel = err / (np.abs(refs) + 1e-290)
                out['maxima']['relative_error_tiny_arguments'] = max(out['maxima'].get('relative_error_tiny_arguments', 0.0), float(np.nanmax(rel)))
                if not np.all(err <= tol):
                    k = int(np.argmax(~(err <= tol)))
                    out['fails'].append({'sig': 'C16|%s|n=%d|tiny argument (relative accuracy)' % (label, n), 'case': dict(u, name=name, i=i, n=n),
                                         'detail': {'x': pts[k], 'got': float(got[k]), 'expected': float(refs[k]), 'relative_error': float(rel[k])}})
    return out


def run_history(u):
    """all functions called one after another IN ONE PROCESS, for each order n, in forward and in reverse order of the function
    table, and on arrays whose entries are NEARLY equal: a value may only depend on the arguments of the call - not on
    which function or order was evaluated before, and not on neighbouring array entries"""
    out = {'evals': 0, 'nontrivial': 0, 'fails': [], 'samples': [], 'maxima': {}, 'counters': {}, 'lists': {}}
    S = specs()
    names = [n for n in exported() if n in S]
    nmax = min(NMAX[u['tier']], 5)
    refs = {}

    def ref(name, i, n, x):
        k = (name, i, n, x)
        if k not in refs:
            label, extras, g, dom, exact = S[name][i]
            try:
                refs[k] = exact(x, n) if exact is not None else mpdiff(g, x, n)
            except Exception:
                refs[k] = None
        return refs[k]
    seen = set()
    for rnd, order in enumerate((names, names[::-1], names)):
        for n in ([2, 3, 1, nmax] if rnd < 2 else [nmax, 2]):
            for name in order:
                for i in range(len(S[name])):
                    label, extras, g, dom, exact = S[name][i]
                    pts = [x for x in (0.75, 1.25, -0.5, 2.5) if dom(x)][:2]
                    if not pts:
                        continue
                    # entries differing by ~1e-7 relative, and a plain pair of distinct points
                    for arr in (np.array([pts[0], pts[0] * (1 + 2.0 ** -23), pts[0] * (1 - 2.0 ** -22)]), np.array(pts)):
                        try:
                            got = np.asarray(getattr(ND, name)(*(extras + (arr.copy(),)), n=n), dtype=float)
                        except Exception as ex:
                            sig = 'C16|%s|history|raises' % label
                            if sig not in seen:
                                seen.add(sig)
                                out['fails'].append({'sig': sig, 'case': dict(u), 'detail': {'error': str(ex)[:150], 'n': n}})
                            continue
                        for k, x in enumerate(arr):
                            r = ref(name, i, n, float(x))
                            if r is None:
                                continue
                            out['evals'] += 1
                            out['nontrivial'] += 1 if r != 0 else 0
                            if not abs(got[k] - r) <= 1e-9 * max(1.0, abs(r)):
                                sig = 'C16|%s|history|n=%d|%s' % (label, n, 'nearly equal entries' if len(arr) == 3 else 'after other calls')
                                if sig not in seen:
                                    seen.add(sig)
                                    out['fails'].append({'sig': sig, 'case': dict(u), 'detail': {'x': float(x), 'n': n, 'got': float(got[k]), 'expected': float(r), 'round': rnd}})
    out['samples'] = [{'history': 'all functions x n in (2,3,1,nmax), table order then reversed then again', 'functions': len(names)}]
    return out


def replay(case):
    if case.get('kind') == 'history':
        return run_history(case)['fails']
    if case.get('kind') == 'high':
        return [f for f in run_high_orders(case)['fails'] if f['case'].get('name') == case.get('name')]
    if case.get('kind') == 'tiny':
        return [f for f in run_tiny(case)['fails'] if f['case'].get('name') == case.get('name') and f['case'].get('n') == case.get('n')]
    return run_unit(case)['fails']
