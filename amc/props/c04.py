"""C04  Graph derivative drivers return the derivatives at the requested point.

Space: polynomial programs (all instruction sequences over the polynomial sub-alphabet up to the depth bound,
+ buffer scenarios) F: R^12 -> R^M (M in {1,2,3,6,9,...}; matrix results are flattened by a traced reshape)
 x recording kind {ndarray, UTPM(1,1), UTPM(3,2)} at recording point r
 x evaluation point {r (same), a (different)}
 x driver {gradient (array and list argument), jacobian(ndarray), jacobian(UTPM curve, P=2 with different
   base points), jac_vec, vec_jac, hessian, hess_vec, vec_hess, vec_hess_vec} x vectors (unit + dense).
Oracle: the same instruction list run on an object ndarray of exact Fraction polynomials (amc/ref/qpoly.py)
gives F symbolically; exact partial derivatives are evaluated at the (float) evaluation point in rational
arithmetic.  Tolerance 1e-10 x majorant (sum of |terms|); measured worst 1.2e-14.
Second pass: smooth (non-polynomial) depth-1 programs, drivers compared with forward-mode propagation.
"""
from fractions import Fraction

import numpy as np

from .. import env
from .. import programs as PR
from .. import adjoint as AD
from ..ref import qpoly as Q
import algopy
from algopy import UTPM, Function, CGraph

ID = 'C04'
RULE = ('programs = all sequences over the polynomial sub-alphabet up to the depth bound + scenarios (+ smooth depth-1 '
        'programs in a second pass); each is recorded in every recording kind and every driver is called on a fresh graph '
        'at the recording point and at a different point; evaluations = driver calls compared; non-trivial = distinct '
        '(program, recording kind, point, driver) with a not identically zero exact derivative')
ASSUMPTIONS = ['exact Fraction polynomial arithmetic is the reference for polynomial programs',
               'forward-mode propagation is the reference for smooth programs (checked by C01/C02/C09)']
EPS = 2.0 ** -52
RTOL = 1e-10
REC_POINT = 3
REC_KINDS = {'quick': ['nd', 'u11', 'u32'], 'thorough': ['nd', 'u11', 'u32']}
CHUNK = 12
NX = PR.NX


def bounds(tier):
    return {'poly_program_depth': 2 if tier == 'quick' else 3, 'recording_kinds': REC_KINDS[tier], 'N': NX,
            'eval_points': ['recording point', 'different point']}


def rec_input(kind, seed):
    if kind == 'nd':
        return np.array(PR.POINTS[REC_POINT], dtype=float)
    D, P = {'u11': (1, 1), 'u32': (3, 2)}[kind]
    return UTPM(PR.curve(seed + 11, D, P, pts=(REC_POINT, 2, 1)))


def flatten_prog(prog):
    """make the result 0-D or 1-D by a traced reshape"""
    y = PR.result_info(prog)
    x = np.array(PR.POINTS[0], dtype=float)
    try:
        out, _ = PR.run(prog, x)
    except Exception:
        return None
    if out is None:
        return None
    if np.ndim(out) >= 2:
        return prog + [['reshape(A,-1)', ['r%d' % (len(prog) - 1)]]]
    return prog


def symbolic(prog):
    """F as a list of exact polynomials (flattened); raises if not polynomial / too big"""
    X = Q.variables(NX)
    y, _ = PR.run(prog, X)
    ya = np.asarray(y, dtype=object)
    shape = ya.shape
    comps = [Q.as_poly(NX, v) for v in ya.ravel()]
    return comps, shape


def split_layout(prog):
    used = sorted(set(r for ins in prog for r in ins[1] if r in PR.PRELUDE))
    spare = [r for r in ('V1', 'S1', 'M1', 'V0', 'S0', 'M0', 'T1', 'T0') if r not in used][0]
    names = used + [spare]
    shapes = [np.shape(PR.PRELUDE[r](np.zeros(NX))) for r in names]
    return names, shapes


def symbolic_split(prog):
    """the program as a polynomial in SEPARATE variables for every prelude register it reads (and one it does not)"""
    names, shapes = split_layout(prog)
    sizes = [int(np.prod(sh, dtype=int)) for sh in shapes]
    n = sum(sizes)
    X = Q.variables(n)
    regs, off = {}, 0
    for r, sh, sz in zip(names, shapes, sizes):
        regs[r] = X[off] if sh == () else X[off:off + sz].reshape(sh).copy()
        off += sz
    y, _ = PR.run(prog, PR.Split(regs))
    return Q.as_poly(n, np.asarray(y, dtype=object).ravel()[0]), names, shapes, sizes


def split_point(prog, x):
    names, shapes = split_layout(prog)
    return [np.array(PR.PRELUDE[r](x), dtype=float, copy=True) for r in names]


def record_split(prog, reckind, seed):
    Function.cgraph = None
    x0 = rec_input(reckind, seed)
    names, shapes = split_layout(prog)
    vals = []
    for r in names:
        v = PR.PRELUDE[r](x0)
        vals.append(UTPM(v.data.copy()) if isinstance(v, UTPM) else np.array(v, dtype=float, copy=True))
    cg = CGraph()
    F = [Function(v) for v in vals]
    y, _ = PR.run(prog, PR.Split(dict(zip(names, F))))
    cg.trace_off()
    cg.independentFunctionList = F
    cg.dependentFunctionList = [y]
    return cg


def fr(pt):
    return [Fraction(float(v)) for v in pt]


def vecs(n, seed, salt):
    rng = np.random.default_rng(31 * seed + salt + n)
    dense = np.round(rng.uniform(-2, 2, size=n) * 4) / 4.0
    dense[dense == 0] = 1.0
    unit = np.zeros(n)
    unit[(salt + 1) % n] = 1.0
    return [unit, dense]


class Exact(object):
    def __init__(self, comps):
        self.comps = comps
        self.M = len(comps)
        self._g = {}
        self._h = {}

    def grad(self, m):
        if m not in self._g:
            self._g[m] = [self.comps[m].diff(j) for j in range(NX)]
        return self._g[m]

    def hess(self, m):
        if m not in self._h:
            g = self.grad(m)
            self._h[m] = [[g[i].diff(j) if j >= i else None for j in range(NX)] for i in range(NX)]
            for i in range(NX):
                for j in range(i):
                    self._h[m][i][j] = self._h[m][j][i]
        return self._h[m]

    def jac_at(self, pt):
        p = fr(pt)
        J = np.zeros((self.M, NX))
        Mj = np.zeros((self.M, NX))
        for m in range(self.M):
            for j, d in enumerate(self.grad(m)):
                v, mj = d.eval(p)
                J[m, j] = float(v)
                Mj[m, j] = float(mj)
        return J, Mj

    def hess_at(self, pt, w):
        """Hessian of sum_m w_m F_m at pt (exact), and majorant"""
        p = fr(pt)
        H = [[Fraction(0)] * NX for _ in range(NX)]
        Mh = [[Fraction(0)] * NX for _ in range(NX)]
        for m in range(self.M):
            wm = Fraction(float(w[m]))
            if wm == 0:
                continue
            hm = self.hess(m)
            for i in range(NX):
                for j in range(i, NX):
                    v, mj = hm[i][j].eval(p)
                    H[i][j] += wm * v
                    Mh[i][j] += abs(wm) * mj
                    if j != i:
                        H[j][i] += wm * v
                        Mh[j][i] += abs(wm) * mj
        return H, Mh


def cmp(got, exp, maj, what, fails, stats, extra_scale=1.0):
    got = np.asarray(got, dtype=float)
    exp = np.asarray(exp, dtype=float)
    maj = np.asarray(maj, dtype=float)
    if got.size != exp.size:
        fails.append((what, {'reason': 'size', 'got_shape': list(got.shape), 'expected_shape': list(exp.shape)}))
        return
    got = got.reshape(exp.shape)
    # the majorant bounds the rounding of the exact expression, not of algopy's recurrences (x**3 goes through a
    # division by x_0); measured worst scaled error on the pinned tree 1.2e-14, a wrong term is O(1)
    tol = RTOL * (maj * extra_scale + np.abs(exp)) + 1e-300
    err = np.abs(got - exp)
    if not np.all(err <= tol):
        i = np.unravel_index(np.argmax(err / tol), err.shape)
        fails.append((what, {'reason': 'value', 'index': [int(k) for k in i], 'got': float(got[i]), 'expected': float(exp[i]),
                             'tol': float(tol[i])}))
    else:
        stats['worst'] = max(stats.get('worst', 0.0), float(np.max(err / (maj * extra_scale + np.abs(exp) + 1e-300))))


def fresh(prog, reckind, seed):
    Function.cgraph = None
    cg, x, y = PR.record(prog, rec_input(reckind, seed))
    return cg


def call(fails, what, fn):
    try:
        return fn()
    except Exception as e:
        cls = AD.classify_pullback_exception(e)
        if cls == 'unsupported':
            return 'unsupported'
        fails.append((what, {'reason': 'exception', 'error': AD.last_line(e)}))
        return None
    finally:
        Function.cgraph = None


def check_poly_program(prog, reckind, seed, only=None):
    """returns (evals, nontrivial_keys, fails[(driver, detail)], stats, skip_reason)"""
    stats = {}
    fails = []
    keys = []
    evals = 0
    try:
        comps, oshape = symbolic(prog)
    except Q.TooBig:
        return 0, [], [], stats, 'too_big'
    except Exception:
        return 0, [], [], stats, 'not_polynomial'
    if max(c.degree() for c in comps) > 9:
        return 0, [], [], stats, 'too_big'
    ex = Exact(comps)
    M = ex.M
    scalar = (tuple(oshape) == ())
    try:
        fresh(prog, reckind, seed)
    except Exception:
        Function.cgraph = None
        return 0, [], [], stats, 'untraceable'
    for ptname, pi in (('same', REC_POINT), ('other', 0)):
        pt = np.array(PR.POINTS[pi], dtype=float)
        J, MJ = ex.jac_at(pt)
        nz = bool(np.any(J != 0))

        def done(drv, nontriv=True):
            if nontriv:
                keys.append('%s|%s|%s|%s' % (PR.prog_str(prog), reckind, ptname, drv))
        drivers = []
        if scalar:
            drivers += ['gradient', 'gradient_list', 'gradient_multi', 'hessian', 'hess_vec']
        drivers += ['jacobian', 'jacobian_utpm', 'jac_vec', 'vec_jac', 'vec_hess', 'vec_hess_vec']
        for drv in drivers:
            if only is not None and (drv, ptname) not in only:
                continue
            what = '%s@%s' % (drv, ptname)
            if drv == 'gradient':
                r = call(fails, what, lambda: fresh(prog, reckind, seed).gradient(pt))
                if r is None or isinstance(r, str):
                    continue
                evals += 1
                cmp(r, J[0], MJ[0], what, fails, stats)
                done(drv, nz)
            elif drv == 'gradient_list':
                r = call(fails, what, lambda: fresh(prog, reckind, seed).gradient([pt]))
                if r is None or isinstance(r, str):
                    continue
                evals += 1
                if not isinstance(r, list) or len(r) != 1:
                    fails.append((what, {'reason': 'list form must return a list of one gradient'}))
                else:
                    cmp(r[0], J[0], MJ[0], what, fails, stats)
                done(drv, nz)
            elif drv == 'gradient_multi':
                # every prelude register an independent of its own (+ one the program never reads): list in, list out
                try:
                    sp, names, shapes, sizes = symbolic_split(prog)
                    record_split(prog, reckind, seed)
                except Exception:
                    Function.cgraph = None
                    continue
                finally:
                    Function.cgraph = None
                parts = split_point(prog, pt)
                r = call(fails, what, lambda: record_split(prog, reckind, seed).gradient([a.copy() for a in parts]))
                if r is None or isinstance(r, str):
                    continue
                evals += 1
                if not isinstance(r, list) or len(r) != len(names):
                    fails.append((what, {'reason': 'list of %d gradients expected' % len(names), 'got': str(type(r))}))
                    continue
                flat = fr(np.concatenate([a.ravel() for a in parts]))
                off = 0
                anynz = False
                for g, sh, sz, nm in zip(r, shapes, sizes, names):
                    ev = [sp.diff(off + j).eval(flat) for j in range(sz)]
                    exp = np.array([float(e[0]) for e in ev]).reshape(sh)
                    mj = np.array([float(e[1]) for e in ev]).reshape(sh)
                    anynz = anynz or bool(np.any(exp != 0))
                    if np.shape(g) != tuple(sh):
                        fails.append((what, {'reason': 'shape', 'independent': nm, 'got_shape': list(np.shape(g)), 'expected_shape': list(sh)}))
                        break
                    cmp(g, exp, mj, what, fails, stats)
                    off += sz
                done(drv, anynz)
            elif drv == 'jacobian':
                r = call(fails, what, lambda: fresh(prog, reckind, seed).jacobian(pt))
                if r is None or isinstance(r, str):
                    continue
                evals += 1
                cmp(r, J, MJ, what, fails, stats)
                done(drv, nz)
            elif drv == 'jacobian_utpm':
                D, P = 3, 2
                xc = PR.curve(seed + 23 + pi, D, P, pts=(pi, 1, 2))
                r = call(fails, what, lambda: fresh(prog, reckind, seed).jacobian(UTPM(xc.copy())))
                if r is None or isinstance(r, str):
                    continue
                evals += 1
                if not isinstance(r, UTPM) or r.data.shape[:2] != (D, P) or r.data[0, 0].size != M * NX:
                    fails.append((what, {'reason': 'shape', 'got': list(getattr(getattr(r, 'data', None), 'shape', []))}))
                    continue
                exp = np.zeros((D, P, M, NX))
                maj = np.zeros((D, P, M, NX))
                for p in range(P):
                    xs = [[Fraction(float(xc[d, p, j])) for d in range(D)] for j in range(NX)]
                    for m in range(M):
                        for j, dpoly in enumerate(ex.grad(m)):
                            co, mj = dpoly.eval_series(xs, D)
                            exp[:, p, m, j] = [float(c) for c in co]
                            maj[:, p, m, j] = [float(c) for c in mj]
                cmp(r.data.reshape(exp.shape), exp, maj, what, fails, stats)
                done(drv, nz)
            elif drv == 'jac_vec':
                for vi, v in enumerate(vecs(NX, seed, 1)):
                    r = call(fails, what, lambda: fresh(prog, reckind, seed).jac_vec(pt, v))
                    if r is None or isinstance(r, str):
                        continue
                    evals += 1
                    cmp(r, J.dot(v).reshape(oshape), MJ.dot(np.abs(v)).reshape(oshape), what, fails, stats)
                done(drv, nz)
            elif drv == 'vec_jac':
                for wi, w in enumerate(vecs(M, seed, 2)):
                    r = call(fails, what, lambda: fresh(prog, reckind, seed).vec_jac(w, pt))
                    if r is None or isinstance(r, str):
                        continue
                    evals += 1
                    cmp(r, w.dot(J), np.abs(w).dot(MJ), what, fails, stats)
                done(drv, nz)
            elif drv in ('hessian', 'hess_vec', 'vec_hess', 'vec_hess_vec'):
                ws = [np.ones(1)] if drv in ('hessian', 'hess_vec') else vecs(M, seed, 3)
                for w in ws:
                    H, MH = ex.hess_at(pt, w)
                    Hf = np.array([[float(c) for c in row] for row in H])
                    MHf = np.array([[float(c) for c in row] for row in MH])
                    hz = bool(np.any(Hf != 0))
                    if drv == 'hessian':
                        r = call(fails, what, lambda: fresh(prog, reckind, seed).hessian(pt))
                        if r is None or isinstance(r, str):
                            continue
                        evals += 1
                        cmp(r, Hf, MHf, what, fails, stats)
                    elif drv == 'vec_hess':
                        r = call(fails, what, lambda: fresh(prog, reckind, seed).vec_hess(w, pt))
                        if r is None or isinstance(r, str):
                            continue
                        evals += 1
                        cmp(r, Hf, MHf, what, fails, stats)
                    else:
                        for v in vecs(NX, seed, 4):
                            if drv == 'hess_vec':
                                r = call(fails, what, lambda: fresh(prog, reckind, seed).hess_vec(pt, v))
                            else:
                                r = call(fails, what, lambda: fresh(prog, reckind, seed).vec_hess_vec(w, pt, v))
                            if r is None or isinstance(r, str):
                                continue
                            evals += 1
                            cmp(r, Hf.dot(v), MHf.dot(np.abs(v)), what, fails, stats)
                    done(drv, hz)
    # two calls of the same driver on ONE graph at different points; the first result object is kept (not copied) and
    # judged only after the second call: a driver must not hand out memory that a later call overwrites
    if only is None:
        pa = np.array(PR.POINTS[REC_POINT], dtype=float)
        pb = np.array(PR.POINTS[0], dtype=float)
        Ja, MJa = ex.jac_at(pa)
        v = vecs(NX, seed, 1)[1]
        w = vecs(M, seed, 2)[1]
        pairs = [('jacobian', lambda cg, pt: cg.jacobian(pt), lambda J: J, lambda MJ: MJ),
                 ('vec_jac', lambda cg, pt: cg.vec_jac(w, pt), lambda J: w.dot(J), lambda MJ: np.abs(w).dot(MJ)),
                 ('jac_vec', lambda cg, pt: cg.jac_vec(pt, v), lambda J: J.dot(v).reshape(oshape), lambda MJ: MJ.dot(np.abs(v)).reshape(oshape))]
        if scalar:
            pairs.append(('gradient', lambda cg, pt: cg.gradient(pt), lambda J: J[0], lambda MJ: MJ[0]))
        for nm, fcall, fexp, fmaj in pairs:
            what = '%s@kept-result' % nm
            try:
                cg = fresh(prog, reckind, seed)
                r1 = fcall(cg, pa)
                r2 = fcall(cg, pb)
            except Exception:
                Function.cgraph = None
                continue
            finally:
                Function.cgraph = None
            evals += 1
            cmp(r1, fexp(Ja), fmaj(MJa), what, fails, stats)
            keys.append('%s|%s|kept|%s' % (PR.prog_str(prog), reckind, nm))
    return evals, keys, fails, stats, None


def check_smooth_program(prog, reckind, seed):
    """non-polynomial programs: drivers vs forward-mode propagation of the same instruction list"""
    stats = {}
    fails = []
    keys = []
    evals = 0
    if PR.in_domain(prog, [PR.POINTS[0], PR.POINTS[REC_POINT], PR.POINTS[1], PR.POINTS[2]]) is not None:
        return 0, [], [], stats, 'out_of_domain'
    try:
        y0, _ = PR.run(prog, np.array(PR.POINTS[0]))
        fresh(prog, reckind, seed)
    except Exception:
        Function.cgraph = None
        return 0, [], [], stats, 'untraceable'
    oshape = np.shape(y0)
    M = int(np.prod(oshape, dtype=int))
    scalar = oshape == ()
    for ptname, pi in (('same', REC_POINT), ('other', 0)):
        pt = np.array(PR.POINTS[pi], dtype=float)
        try:
            yj, _ = PR.run(prog, UTPM.init_jacobian(pt))
            Jf = np.asarray(UTPM.extract_jacobian(yj)).reshape(M, NX)
        except Exception:
            return evals, keys, fails, stats, 'forward_unsupported'
        sc = np.abs(Jf) + 1.0

        def tolcmp(got, exp, what):
            got = np.asarray(got, dtype=float)
            exp = np.asarray(exp, dtype=float)
            if got.size != exp.size:
                fails.append((what, {'reason': 'size', 'got_shape': list(got.shape), 'expected_shape': list(exp.shape)}))
                return
            got = got.reshape(exp.shape)
            err = np.abs(got - exp) / (1.0 + np.abs(exp))
            if not np.all(err <= 1e-9):
                i = np.unravel_index(np.argmax(np.nan_to_num(err, nan=np.inf)), err.shape)
                fails.append((what, {'reason': 'value', 'index': [int(k) for k in i], 'got': float(got[i]), 'expected': float(exp[i])}))
            else:
                stats['worst_smooth'] = max(stats.get('worst_smooth', 0.0), float(err.max()) if err.size else 0.0)
        r = call(fails, 'jacobian@' + ptname, lambda: fresh(prog, reckind, seed).jacobian(pt))
        if isinstance(r, str):
            return evals, keys, fails, stats, 'unsupported_pullback'
        if r is not None:
            evals += 1
            tolcmp(r, Jf, 'jacobian@' + ptname)
            keys.append('%s|%s|%s|jacobian' % (PR.prog_str(prog), reckind, ptname))
        w = vecs(M, seed, 2)[1]
        v = vecs(NX, seed, 1)[1]
        r = call(fails, 'vec_jac@' + ptname, lambda: fresh(prog, reckind, seed).vec_jac(w, pt))
        if r is not None and not isinstance(r, str):
            evals += 1
            tolcmp(r, w.dot(Jf), 'vec_jac@' + ptname)
        r = call(fails, 'jac_vec@' + ptname, lambda: fresh(prog, reckind, seed).jac_vec(pt, v))
        if r is not None and not isinstance(r, str):
            evals += 1
            tolcmp(r, Jf.dot(v), 'jac_vec@' + ptname)
        if len(oshape) <= 1 and ptname == 'other':
            # Taylor expansion of every Jacobian entry along a curve (D=3, two directions with different base points),
            # reference: forward propagation alone (2D-coefficient trick of amc/adjoint.py with v = e_j)
            D, Pn = 3, 2
            xc = PR.curve(seed + 29, D, Pn, pts=(pi, 1, 2))
            if PR.in_domain(prog, [xc[0, p] for p in range(Pn)]) is None:
                r = call(fails, 'jacobian_utpm@' + ptname, lambda: fresh(prog, reckind, seed).jacobian(UTPM(xc.copy())))
                if r is not None and not isinstance(r, str):
                    evals += 1
                    try:
                        ref = np.zeros((D, Pn, M, NX))
                        for j in range(NX):
                            vdir = np.zeros_like(xc)
                            vdir[0, :, j] = 1.0
                            Jv, _ = AD.jv_forward(prog, xc, vdir)
                            ref[:, :, :, j] = np.real(Jv).reshape(D, Pn, M)
                        got = r.data.reshape(D, Pn, M, NX) if isinstance(r, UTPM) and r.data.size == ref.size else None
                        if got is None:
                            fails.append(('jacobian_utpm@' + ptname, {'reason': 'shape', 'got': list(getattr(getattr(r, 'data', None), 'shape', []))}))
                        else:
                            tolcmp(got, ref, 'jacobian_utpm@' + ptname)
                            keys.append('%s|%s|%s|jacobian_utpm' % (PR.prog_str(prog), reckind, ptname))
                    except AD.Outcome:
                        pass
        if scalar:
            r = call(fails, 'gradient@' + ptname, lambda: fresh(prog, reckind, seed).gradient(pt))
            if r is not None and not isinstance(r, str):
                evals += 1
                tolcmp(r, Jf[0], 'gradient@' + ptname)
            try:
                yh, _ = PR.run(prog, UTPM.init_hessian(pt))
                Hf = UTPM.extract_hessian(NX, yh)
            except Exception:
                Hf = None
            if Hf is not None:
                r = call(fails, 'hessian@' + ptname, lambda: fresh(prog, reckind, seed).hessian(pt))
                if r is not None and not isinstance(r, str):
                    evals += 1
                    tolcmp(r, Hf, 'hessian@' + ptname)
                    keys.append('%s|%s|%s|hessian' % (PR.prog_str(prog), reckind, ptname))
                r = call(fails, 'hess_vec@' + ptname, lambda: fresh(prog, reckind, seed).hess_vec(pt, v))
                if r is not None and not isinstance(r, str):
                    evals += 1
                    tolcmp(r, np.asarray(Hf).dot(v), 'hess_vec@' + ptname)
    return evals, keys, fails, stats, None


def enumerate_programs(tier):
    polyn = set(n for n, t in PR.TEMPLATES.items() if 'poly' in t.tags)
    res = []
    d1 = PR.depth1(names=polyn)
    res += [(p, 'poly', 1) for p in d1]
    d2 = []
    for p in d1:
        d2 += PR.extend(p, names=polyn)
    res += [(p, 'poly', 2) for p in d2]
    if tier == 'thorough':
        vb = set(n for n, t in PR.TEMPLATES.items() if t.tags & {'view', 'buf'} and 'poly' in t.tags) | {'mul(A,A)', 'pow(A,2)', 'dot(M,V)', 'sum(M,0)'}
        for q in d2:
            if any(i[0] in vb for i in q):
                res += [(r, 'poly', 3) for r in PR.extend(q, names=vb, use_older=True)]
    for name, p in PR.SCENARIOS.items():
        res.append((p, 'poly', 0))
    for p in PR.depth1():
        if p[0][0] not in polyn:
            res.append((p, 'smooth', 1))
    # fan-out programs (an operand of every operation is used again after it), judged against forward mode
    for p in PR.fanout_programs():
        res.append((p, 'smooth', 4))
    out = []
    for p, kind, d in res:
        fp = flatten_prog(p)
        if fp is not None:
            out.append((fp, kind, d))
    return out


def units(tier, seed):
    progs = enumerate_programs(tier)
    if tier == 'quick':
        # depth 2 in the quick tier: every second program per recording kind, rotated so that the three kinds together
        # cover all programs (deterministic, not sampled: kind k takes programs with index % 3 == k)
        pass
    us = []
    for ki, rk in enumerate(REC_KINDS[tier]):
        sel = progs
        if tier == 'quick':
            sel = [pr for i, pr in enumerate(progs) if pr[2] != 2 or i % 3 == ki]
        for i in range(0, len(sel), CHUNK):
            us.append({'progs': sel[i:i + CHUNK], 'reckind': rk, 'tier': tier, 'seed': seed})
    return us


def run_unit(unit):
    out = {'evals': 0, 'keys': [], 'counters': {}, 'fails': [], 'samples': [], 'maxima': {}}
    for prog, kind, depth in unit['progs']:
        fn = check_poly_program if kind == 'poly' else check_smooth_program
        evals, keys, fails, stats, skip = fn(prog, unit['reckind'], unit['seed'])
        if skip and kind == 'poly' and skip == 'not_polynomial':
            evals, keys, fails, stats, skip = check_smooth_program(prog, unit['reckind'], unit['seed'])
            kind = 'smooth'
        out['evals'] += evals
        out['keys'] += keys
        if skip:
            out['counters']['skipped_' + skip] = out['counters'].get('skipped_' + skip, 0) + 1
        else:
            out['counters']['programs_%s_depth_%d' % (kind, depth)] = out['counters'].get('programs_%s_depth_%d' % (kind, depth), 0) + 1
        for k, v in stats.items():
            out['maxima'][k] = max(out['maxima'].get(k, 0.0), v)
        seen = set()
        for what, detail in fails:
            sig = 'C04|%s|%s|prog=%s|rec=%s' % (what, detail.get('reason'), PR.prog_str(prog), unit['reckind'])
            if sig in seen:
                continue
            seen.add(sig)
            out['fails'].append({'sig': sig, 'case': {'prog': prog, 'kind': kind, 'reckind': unit['reckind'], 'seed': unit['seed'],
                                                      'driver': what},
                                 'detail': detail, 'attribs': ['instr:%s|%s' % (i[0], what.split('@')[0]) for i in prog]})
    if unit['progs']:
        p = unit['progs'][0]
        out['samples'] = [{'program': PR.prog_str(p[0]), 'kind': p[1], 'recorded_as': unit['reckind'],
                           'drivers': 'all of gradient/jacobian/jacobian(UTPM)/jac_vec/vec_jac/hessian/hess_vec/vec_hess/vec_hess_vec at 2 points'}]
    return out


def replay(case):
    fn = check_poly_program if case['kind'] == 'poly' else check_smooth_program
    evals, keys, fails, stats, skip = fn(case['prog'], case['reckind'], case.get('seed', 0))
    want = case.get('driver')
    return [{'sig': 'C04|' + w, 'detail': d} for w, d in fails if want is None or w == want]
