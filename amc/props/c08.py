"""C08  Matrix factorizations satisfy their defining equations modulo t^D.

For qr, qr_full (M >= N), cholesky, lu, eigh, eig (D <= 2), svd x shapes (M,N) in {1,2,3}^2 as supported x D menu x
base matrices packed along the direction axis (so different base matrices sit in one call):
   qr / qr_full : ALL full-column-rank {-1,0,1} matrices of the shape with condition <= 50
   cholesky     : ALL distinct B B^T + I, B in {-1,0,1}^(NxN)
   lu           : ALL nonsingular small-integer matrices of C07 (every pivot pattern)
   eigh         : curves A(t) = Q(t) diag(lam(t)) Q(t)^T built in EXACT rational arithmetic from a Cayley-transform
                  orthogonal series Q(t) and eigenvalue polynomials described by a split signature
                  sig in {0..smax+1}^(N-1) (sig[k] = order at which eigenvalue k+1 separates from eigenvalue k;
                  0 = distinct at order 0, > smax = never within D): ALL signatures for N <= 4 - every multiplicity
                  pattern and every nested splitting tree of the block-deflation bookkeeping
   eig          : general matrices with distinct real eigenvalues, D in {1,2}
   svd          : matrices with well separated singular values (square, wide; tall via the documented transpose)
Oracle: exact rational residuals of the defining identities evaluated on the float outputs (Q R = A, Q^T Q = I,
tril(R,-1) = 0; L L^T = A, triu(L,1) = 0; P L U = A, unit diagonal of L, U upper, P a constant permutation;
A Q = Q diag(l), Q^T Q = I, l_0 ascending; U diag(s) V^T = A, U^T U = I, V^T V = I, s_0 descending >= 0), bounded
by 64 eps x cond x majorant; zeroth coefficients against numpy.linalg.qr / cholesky, scipy.linalg.lu,
numpy.linalg.eigvalsh.  The operand is snapshotted: the equations are checked against the operand AFTER the call too.
"""
import itertools
from fractions import Fraction

import numpy as np
import scipy.linalg

from .. import env
import algopy
from algopy import UTPM
from ..ref import qseries as QS
from . import c07 as L7

ID = 'C08'
RULE = ('cases = (factorization, shape, D, base matrix | split signature, coefficient fill), packed along P; evaluations = '
        '(case, direction) factorizations whose identities were all evaluated exactly; non-trivial = D > 1; distinct = distinct '
        '(factorization, shape, base matrix / signature, D)')
ASSUMPTIONS = ['exact rational residuals of float outputs', 'N <= 4, D <= 6, condition number <= 50, eigenvalue / singular value gaps >= 0.5 at the splitting order']
EPS = 2.0 ** -52
DMENU = {'quick': [1, 3, 4], 'thorough': [1, 2, 3, 4, 6]}
BATCH = 300


def bounds(tier):
    return {'D': DMENU[tier], 'eigh_N': [2, 3, 4], 'split_orders': 'all signatures in {0..3}^(N-1)', 'shapes': 'square, tall, wide'}


_RECT = {}


def rect_matrices(M, N):
    key = (M, N)
    if key in _RECT:
        return _RECT[key]
    out = []
    if M == N:
        out = L7.base_matrices(N)
    else:
        for flat in itertools.product((-1, 0, 1), repeat=M * N):
            A = np.array(flat, dtype=float).reshape(M, N)
            # regularity condition of QR: the leading min(M,N) columns are independent (full column rank for M >= N)
            s = np.linalg.svd(A[:, :min(M, N)], compute_uv=False)
            if s.min() > 0.3 and s.max() / s.min() <= 50:
                out.append(A)
    _RECT[key] = out
    return out


_SPD = {}


def spd_matrices(N):
    if N in _SPD:
        return _SPD[N]
    seen = {}
    for flat in itertools.product((-1, 0, 1), repeat=N * N):
        B = np.array(flat, dtype=float).reshape(N, N)
        A = B.dot(B.T) + np.eye(N)
        seen.setdefault(A.tobytes(), A)
    _SPD[N] = list(seen.values())
    return _SPD[N]


def units(tier, seed):
    us = []
    for (M, N) in [(1, 1), (2, 2), (3, 3), (2, 1), (3, 1), (3, 2), (2, 3), (1, 2)]:
        nb = len(rect_matrices(M, N))
        for lo in range(0, nb, BATCH):
            us.append({'kind': 'qr', 'M': M, 'N': N, 'lo': lo, 'hi': min(nb, lo + BATCH), 'tier': tier, 'seed': seed})
    for N in (1, 2, 3):
        nb = len(spd_matrices(N))
        for lo in range(0, nb, BATCH):
            us.append({'kind': 'cholesky', 'N': N, 'lo': lo, 'hi': min(nb, lo + BATCH), 'tier': tier, 'seed': seed})
        nb = len(L7.base_matrices(N))
        for lo in range(0, nb, BATCH):
            us.append({'kind': 'lu', 'N': N, 'lo': lo, 'hi': min(nb, lo + BATCH), 'tier': tier, 'seed': seed})
    for N in (2, 3, 4):
        sigs = list(itertools.product(range(0, 5), repeat=N - 1))
        for i in range(0, len(sigs), 25):
            us.append({'kind': 'eigh', 'N': N, 'sigs': [list(s) for s in sigs[i:i + 25]], 'tier': tier, 'seed': seed})
    us.append({'kind': 'eigh_generic', 'tier': tier, 'seed': seed})
    us.append({'kind': 'eigh_close', 'tier': tier, 'seed': seed})
    us.append({'kind': 'eig', 'tier': tier, 'seed': seed})
    us.append({'kind': 'svd', 'tier': tier, 'seed': seed})
    us.append({'kind': 'patterns', 'tier': tier, 'seed': seed})
    return us


class Ctx(L7.Ctx):
    pass


def ident_series(N, D):
    I = QS.lift(np.eye(N))
    Z = QS.lift(np.zeros((N, N)))
    return [I] + [Z for _ in range(D - 1)]


def transpose_s(A):
    return [a.T for a in A]


def residual(lhs, rhs):
    """max |lhs_d - rhs_d| per order as floats"""
    return [float(np.max(L7.tofl(QS.absq(l - r)))) if l.size else 0.0 for l, r in zip(lhs, rhs)]


def check_eq(c, name, what, lhs, rhs, maj, cond, case, tolfactor=64.0):
    D = len(lhs)
    res = residual(lhs, rhs)
    scale = [float(np.max(L7.tofl(m))) + 1e-300 for m in maj]
    cum = np.maximum.accumulate(scale)
    for d in range(D):
        tol = tolfactor * EPS * cond * cum[d] * (d + 1)
        rel = res[d] / (cond * cum[d])
        c.out['maxima']['residual_over_cond_majorant'] = max(c.out['maxima'].get('residual_over_cond_majorant', 0.0), rel)
        if not res[d] <= tol:
            c.fail('C08|%s|%s|first_bad_order=%d' % (name, what, d), case, {'order': d, 'residual': res[d], 'tolerance': tol})
            return False
    return True


def zero_part(c, name, what, series, mask, scale, cond, case):
    for d, s in enumerate(series):
        v = L7.tofl(s)[mask]
        if v.size and np.max(np.abs(v)) > 64 * EPS * cond * scale * (d + 1):
            c.fail('C08|%s|%s|first_bad_order=%d' % (name, what, d), case, {'order': d, 'max': float(np.max(np.abs(v)))})
            return False
    return True


def fills(shape, D, P, off, sym=False):
    h = L7.dyfill((max(D - 1, 0), P) + shape, off)
    if sym:
        h = h + np.swapaxes(h, -1, -2)
    return h


def run_qr(c, u):
    M, N, tier = u['M'], u['N'], u['tier']
    bases = rect_matrices(M, N)[u['lo']:u['hi']]
    P = len(bases)
    fns = [('qr', algopy.qr)]
    if M >= N:
        fns.append(('qr_full', algopy.qr_full))
    for D in DMENU[tier]:
        A = np.zeros((D, P, M, N))
        A[0] = np.array(bases)
        A[1:] = fills((M, N), D, P, M + 2 * N + D)
        for name, f in fns:
            x = UTPM(A.copy())
            case = {'fn': name, 'D': D}
            c.out['evals'] += P
            c.out['keys'] += ['%s|%d|%d|%d|%d' % (name, M, N, D, u['lo'] + i) for i in range(P)]
            try:
                Q, R = f(x)
            except Exception as ex:
                c.fail('C08|%s|raises|%s' % (name, 'square' if M == N else ('tall' if M > N else 'wide')), case, {'error': '%s: %s' % (type(ex).__name__, str(ex)[:160])})
                continue
            if not np.array_equal(x.data, A):
                c.fail('C08|%s|operand modified' % name, case, {})
                continue
            K = Q.data.shape[3]
            for p in range(P):
                As, Qs, Rs = L7.mser(A[:, p]), L7.mser(Q.data[:, p]), L7.mser(R.data[:, p])
                cond = np.linalg.cond(A[0, p][:, :min(M, N)])
                cs = dict(case, direction=p, A0=A[0, p].tolist())
                ok = check_eq(c, name, 'QR=A', L7.ms_mul(Qs, Rs), As, L7.ms_mul(L7.ms_abs(Qs), L7.ms_abs(Rs)), cond, cs)
                ok = ok and check_eq(c, name, 'QtQ=I', L7.ms_mul(transpose_s(Qs), Qs), ident_series(K, D), L7.ms_mul(L7.ms_abs(transpose_s(Qs)), L7.ms_abs(Qs)), cond, cs)
                rows, cols = R.data.shape[2:]
                mask = np.tril(np.ones((rows, cols), dtype=bool), -1)
                ok = ok and zero_part(c, name, 'R upper triangular', Rs, mask, float(np.abs(R.data[:, p]).max()) + 1, cond, cs)
                if ok and name == 'qr':
                    q0, r0 = np.linalg.qr(A[0, p])
                    if not (np.allclose(Q.data[0, p], q0, atol=1e-12) and np.allclose(R.data[0, p], r0, atol=1e-12)):
                        c.fail('C08|qr|zeroth coefficient differs from numpy.linalg.qr', cs, {})
                        ok = False
                if not ok:
                    break
    # out= : the caller hands in the result objects of an EARLIER factorisation (of other data); they must be overwritten
    # with exactly what a call without out= returns
    for D in DMENU[tier][-2:]:
        A = np.zeros((D, P, M, N))
        A[0] = np.array(bases)
        A[1:] = fills((M, N), D, P, M + 2 * N + D)
        B = A[:, ::-1] * 1.5 + 0.0
        for name, f in [('qr', UTPM.qr)] + ([('qr_full', UTPM.qr_full)] if M >= N else []):
            case = {'fn': name, 'D': D, 'out': 'reused'}
            c.out['evals'] += 1
            c.out['keys'] += ['%s|out=|%d|%d|%d|%d' % (name, M, N, D, u['lo'])]
            try:
                Qo, Ro = f(UTPM(B.copy()))
                Qf, Rf = f(UTPM(A.copy()))
                r = f(UTPM(A.copy()), out=(Qo, Ro))
            except Exception as ex:
                c.fail('C08|%s|out=|raises' % name, case, {'error': '%s: %s' % (type(ex).__name__, str(ex)[:160])})
                continue
            if not (np.allclose(Qo.data, Qf.data, rtol=1e-12, atol=1e-13) and np.allclose(Ro.data, Rf.data, rtol=1e-12, atol=1e-13)):
                c.fail('C08|%s|out= buffers holding an earlier result|%s' % (name, 'square' if M == N else ('tall' if M > N else 'wide')), case,
                       {'max_dQ': float(np.abs(Qo.data - Qf.data).max()), 'max_dR': float(np.abs(Ro.data - Rf.data).max())})
    # homogeneity: data scaled by 2^-60 (qr_full has no threshold; qr with its documented rank threshold scaled as well)
    D = DMENU[tier][-1]
    A = np.zeros((D, P, M, N))
    A[0] = np.array(bases)
    A[1:] = fills((M, N), D, P, M + 2 * N + D)
    sc = 2.0 ** -60
    for name, f, kw, sc in [('qr', UTPM.qr, {'epsilon': 1e-14 * sc}, sc), ('qr', UTPM.qr, {}, 2.0 ** -30)] + ([('qr_full', UTPM.qr_full, {}, sc), ('qr_full', UTPM.qr_full, {}, 2.0 ** -30)] if M >= N else []):
        # 2^-60 with the documented threshold scaled as well; 2^-30 (1e-9) with the DEFAULT threshold 1e-14, far below the data
        case = {'fn': name, 'D': D, 'scale': '2^-60' if sc < 1e-12 else '2^-30, default epsilon'}
        c.out['evals'] += 1
        c.out['keys'] += ['%s|scaled|%d|%d|%d|%d' % (name, M, N, D, u['lo'])]
        try:
            Q1, R1 = f(UTPM(A.copy()))
            Q2, R2 = f(UTPM(A * sc), **kw)
        except Exception as ex:
            c.fail('C08|%s|scaled raises' % name, case, {'error': '%s: %s' % (type(ex).__name__, str(ex)[:160])})
            continue
        if not (np.allclose(Q2.data, Q1.data, rtol=1e-9, atol=1e-9) and np.allclose(R2.data / sc, R1.data, rtol=1e-9, atol=1e-9)):
            c.fail('C08|%s|scaled data differs|%s' % (name, 'square' if M == N else ('tall' if M > N else 'wide')), case,
                   {'max_dQ': float(np.abs(Q2.data - Q1.data).max()), 'max_dR': float(np.abs(R2.data / sc - R1.data).max())})
    c.out['samples'] = [{'factorization': 'qr', 'shape': [M, N], 'base_matrices_in_unit': P, 'example': bases[P // 2].tolist()}]


def run_cholesky(c, u):
    N, tier = u['N'], u['tier']
    bases = spd_matrices(N)[u['lo']:u['hi']]
    P = len(bases)
    for D in DMENU[tier]:
        A = np.zeros((D, P, N, N))
        A[0] = np.array(bases)
        A[1:] = fills((N, N), D, P, N + D, sym=True)
        x = UTPM(A.copy())
        case = {'fn': 'cholesky', 'D': D}
        c.out['evals'] += P
        c.out['keys'] += ['chol|%d|%d|%d' % (N, D, u['lo'] + i) for i in range(P)]
        try:
            Lf = algopy.cholesky(x)
        except Exception as ex:
            c.fail('C08|cholesky|raises', case, {'error': str(ex)[:160]})
            continue
        if not np.array_equal(x.data, A):
            c.fail('C08|cholesky|operand modified', case, {})
            continue
        for p in range(P):
            As, Ls = L7.mser(A[:, p]), L7.mser(Lf.data[:, p])
            cond = np.linalg.cond(A[0, p])
            cs = dict(case, direction=p, A0=A[0, p].tolist())
            ok = check_eq(c, 'cholesky', 'LLt=A', L7.ms_mul(Ls, transpose_s(Ls)), As, L7.ms_mul(L7.ms_abs(Ls), L7.ms_abs(transpose_s(Ls))), cond, cs)
            ok = ok and zero_part(c, 'cholesky', 'L lower triangular', Ls, np.triu(np.ones((N, N), dtype=bool), 1), float(np.abs(Lf.data[:, p]).max()) + 1, cond, cs)
            if ok and not np.allclose(Lf.data[0, p], np.linalg.cholesky(A[0, p]), atol=1e-12):
                c.fail('C08|cholesky|zeroth coefficient differs from numpy.linalg.cholesky', cs, {})
                ok = False
            if not ok:
                break


def run_lu(c, u):
    N, tier = u['N'], u['tier']
    bases = L7.base_matrices(N)[u['lo']:u['hi']]
    P = len(bases)
    for D in DMENU[tier]:
        A = np.zeros((D, P, N, N))
        A[0] = np.array(bases)
        A[1:] = fills((N, N), D, P, 2 * N + D)
        x = UTPM(A.copy())
        case = {'fn': 'lu', 'D': D}
        c.out['evals'] += P
        c.out['keys'] += ['lu|%d|%d|%d' % (N, D, u['lo'] + i) for i in range(P)]
        try:
            Pm, Lf, Uf = algopy.lu(x)
        except Exception as ex:
            c.fail('C08|lu|raises', case, {'error': str(ex)[:160]})
            continue
        if not np.array_equal(x.data, A):
            c.fail('C08|lu|operand modified', case, {})
            continue
        for p in range(P):
            cs = dict(case, direction=p, A0=A[0, p].tolist())
            P0 = Pm.data[0, p]
            isperm = np.all((P0 == 0) | (P0 == 1)) and np.all(P0.sum(axis=0) == 1) and np.all(P0.sum(axis=1) == 1)
            if not isperm or (D > 1 and np.any(Pm.data[1:, p] != 0)):
                c.fail('C08|lu|P is not a constant permutation', cs, {})
                break
            As, Ps, Ls, Us = L7.mser(A[:, p]), L7.mser(Pm.data[:, p]), L7.mser(Lf.data[:, p]), L7.mser(Uf.data[:, p])
            cond = np.linalg.cond(A[0, p])
            LU = L7.ms_mul(Ls, Us)
            ok = check_eq(c, 'lu', 'PLU=A', L7.ms_mul(Ps, LU), As, L7.ms_mul(L7.ms_abs(Ls), L7.ms_abs(Us)), cond, cs)
            ok = ok and zero_part(c, 'lu', 'L lower triangular', Ls, np.triu(np.ones((N, N), dtype=bool), 1), 1.0 + float(np.abs(Lf.data[:, p]).max()), cond, cs)
            ok = ok and zero_part(c, 'lu', 'U upper triangular', Us, np.tril(np.ones((N, N), dtype=bool), -1), 1.0 + float(np.abs(Uf.data[:, p]).max()), cond, cs)
            if ok:
                dg = np.array([np.diag(Lf.data[d, p]) for d in range(D)])
                if not (np.all(dg[0] == 1) and np.all(np.abs(dg[1:]) <= 64 * EPS * cond * (1 + np.abs(Lf.data[:, p]).max()))):
                    c.fail('C08|lu|L unit diagonal', cs, {})
                    ok = False
            if ok:
                p0, l0, u0 = scipy.linalg.lu(A[0, p])
                if not (np.array_equal(P0, p0) and np.allclose(Lf.data[0, p], l0, atol=1e-12) and np.allclose(Uf.data[0, p], u0, atol=1e-12)):
                    c.fail('C08|lu|zeroth coefficient differs from scipy.linalg.lu', cs, {})
                    ok = False
            if not ok:
                break
        # the packed variant UTPM.lu_factor (L strictly below the diagonal, U on and above it, LAPACK pivot vector) and the
        # pivot-vector variant UTPM.lu2 satisfy the same identity
        for fn in ('lu_factor', 'lu2'):
            c.out['evals'] += P
            c.out['keys'] += ['%s|%d|%d|%d' % (fn, N, D, u['lo'] + i) for i in range(P)]
            x = UTPM(A.copy())
            try:
                if fn == 'lu_factor':
                    LUf, PIV = UTPM.lu_factor(x)
                    Ld = np.array([[np.tril(LUf.data[d, p], -1) + (np.eye(N) if d == 0 else 0) for p in range(P)] for d in range(D)])
                    Ud = np.array([[np.triu(LUf.data[d, p]) for p in range(P)] for d in range(D)])
                else:
                    PIV, L2, U2 = UTPM.lu2(x)
                    Ld, Ud = L2.data, U2.data
            except Exception as ex:
                c.fail('C08|%s|raises' % fn, dict(case, fn=fn), {'error': str(ex)[:160]})
                continue
            if not np.array_equal(x.data, A):
                c.fail('C08|%s|operand modified' % fn, dict(case, fn=fn), {})
                continue
            for p in range(P):
                cs = dict(case, fn=fn, direction=p, A0=A[0, p].tolist())
                lu0, piv0 = scipy.linalg.lu_factor(A[0, p])
                if not np.array_equal(np.asarray(PIV.data[0, p], dtype=int), piv0) or (D > 1 and np.any(PIV.data[1:, p] != 0)):
                    c.fail('C08|%s|pivot vector differs from scipy.linalg.lu_factor' % fn, cs, {})
                    break
                if fn == 'lu_factor' and not np.allclose(LUf.data[0, p], lu0, atol=1e-12):
                    c.fail('C08|lu_factor|zeroth coefficient differs from scipy.linalg.lu_factor', cs, {})
                    break
                Pm0 = algopy.utils.piv2mat(piv0)
                Pser = np.zeros((D, N, N))
                Pser[0] = Pm0
                As, Ps, Ls, Us = L7.mser(A[:, p]), L7.mser(Pser), L7.mser(Ld[:, p]), L7.mser(Ud[:, p])
                cond = np.linalg.cond(A[0, p])
                ok = check_eq(c, fn, 'PLU=A', L7.ms_mul(Ps, L7.ms_mul(Ls, Us)), As, L7.ms_mul(L7.ms_abs(Ls), L7.ms_abs(Us)), cond, cs)
                if ok and fn == 'lu2':
                    ok = zero_part(c, fn, 'L lower triangular', Ls, np.triu(np.ones((N, N), dtype=bool), 1), 1.0 + float(np.abs(Ld[:, p]).max()), cond, cs)
                    ok = ok and zero_part(c, fn, 'U upper triangular', Us, np.tril(np.ones((N, N), dtype=bool), -1), 1.0 + float(np.abs(Ud[:, p]).max()), cond, cs)
                if not ok:
                    break


# ---------------------------------------------------------------- eigh on constructed curves
def skew_series(N, D, off):
    """S(t) skew-symmetric with S_0 = 0: list of D Fraction (N,N) object arrays"""
    out = []
    for d in range(D):
        S = np.empty((N, N), dtype=object)
        for i in range(N):
            for j in range(N):
                S[i, j] = Fraction(0)
        if d >= 1:
            k = 0
            for i in range(N):
                for j in range(i + 1, N):
                    v = Fraction([1, -1, 2, -3, 1, 2][(off + k + d) % 6], 4 * d)
                    S[i, j] = v
                    S[j, i] = -v
                    k += 1
        out.append(S)
    return out


def ms_inv(A):
    """series inverse of a matrix series with A_0 = I - S_0 (here A_0 = I): X_d = -sum_{c>=1} X_0 A_c X_{d-c}, X_0 = A_0^{-1}"""
    D = len(A)
    N = A[0].shape[0]
    I = QS.lift(np.eye(N))
    X = [I]           # A_0 = I
    for d in range(1, D):
        acc = np.dot(A[1], X[d - 1])
        for cc in range(2, d + 1):
            acc = acc + np.dot(A[cc], X[d - cc])
        X.append(-acc)
    return X


def constructed_curve(N, D, sig, off, rotate):
    """exact A(t) = Q(t) diag(lam(t)) Q(t)^T mod t^D; returns float data (D,N,N) and the eigenvalue series"""
    S = skew_series(N, D, off)
    I = ident_series(N, D)
    ImS = [a - b for a, b in zip(I, S)]
    IpS = [a + b for a, b in zip(I, S)]
    Q = L7.ms_mul(ms_inv(ImS), IpS)            # Cayley transform: orthogonal for skew S
    lam = [[Fraction(0)] * D for _ in range(N)]
    lam[0][0] = Fraction(1)
    if D > 1:
        lam[0][1] = Fraction(1, 2)
    for k in range(1, N):
        lam[k] = list(lam[k - 1])
        s = sig[k - 1]
        if s < D:
            lam[k][s] += Fraction(2 + k, 2)
    Lam = []
    for d in range(D):
        Ld = np.empty((N, N), dtype=object)
        for i in range(N):
            for j in range(N):
                Ld[i, j] = lam[i][d] if i == j else Fraction(0)
        Lam.append(Ld)
    A = L7.ms_mul(L7.ms_mul(Q, Lam), transpose_s(Q))
    if rotate:
        # fixed orthogonal rotation with exactly representable entries (Householder of (1,..,1) scaled for N=4, signed permutation otherwise)
        if N == 4:
            H = np.eye(4) - 0.5 * np.ones((4, 4))
        else:
            H = np.eye(N)[::-1] * np.array([(-1.0) ** i for i in range(N)])[:, None]
        Hq = QS.lift(H)
        A = [np.dot(np.dot(Hq, a), Hq.T) for a in A]
    data = np.array([L7.tofl(a) for a in A])
    data = 0.5 * (data + np.swapaxes(data, -1, -2))
    lamf = np.array([[float(lam[i][d]) for i in range(N)] for d in range(D)])
    return data, lamf


def check_eigh(c, name, A, l, Q, case_base, tolfactor):
    D, P = A.shape[:2]
    N = A.shape[2]
    for p in range(P):
        cs = dict(case_base, direction=p)
        As, Qs = L7.mser(A[:, p]), L7.mser(Q.data[:, p])
        Ls = [QS.lift(np.diag(l.data[d, p])) for d in range(D)]
        scale = 1.0 + float(np.abs(A[:, p]).max())
        ok = check_eq(c, name, 'AQ=Qdiag(l)', L7.ms_mul(As, Qs), L7.ms_mul(Qs, Ls), L7.ms_mul(L7.ms_abs(As), L7.ms_abs(Qs)), scale, cs, tolfactor)
        ok = ok and check_eq(c, name, 'QtQ=I', L7.ms_mul(transpose_s(Qs), Qs), ident_series(N, D), L7.ms_mul(L7.ms_abs(transpose_s(Qs)), L7.ms_abs(Qs)), scale, cs, tolfactor)
        if ok and np.any(np.diff(l.data[0, p]) < -1e-9):
            c.fail('C08|%s|l_0 not ascending' % name, cs, {'l0': l.data[0, p].tolist()})
            ok = False
        if ok and not np.allclose(l.data[0, p], np.linalg.eigvalsh(A[0, p]), atol=1e-10):
            c.fail('C08|%s|zeroth eigenvalues differ from numpy.linalg.eigvalsh' % name, cs, {})
            ok = False
        if not ok:
            return False
    return True


def run_eigh(c, u):
    N, tier = u['N'], u['tier']
    Dmax = max(DMENU[tier])
    for sig in u['sigs']:
        Ds = list(DMENU[tier])
        # groups of >= 3 eigenvalues that stay together through first order need D >= 5 to exercise the deeper
        # levels of the block deflation: added to the quick tier for exactly those signatures
        if tier == 'quick' and any(sig[k] >= 2 and sig[k + 1] >= 2 for k in range(len(sig) - 1)):
            Ds.append(5)
        for D in Ds:
            if D == 1 and any(s > 0 for s in sig) and sig != u['sigs'][0]:
                pass
            datas, lams = [], []
            for rotate in (False, True):
                dat, lamf = constructed_curve(N, D, sig, sum(sig) + N, rotate)
                datas.append(dat)
                lams.append(lamf)
            A = np.stack(datas, axis=1)          # P = 2: unrotated and rotated curve side by side
            x = UTPM(A.copy())
            pattern = 'distinct' if all(s == 0 for s in sig) else ('never-splitting' if any(s >= D for s in sig) else 'splitting')
            case = {'fn': 'eigh', 'N': N, 'sig': list(sig), 'D': D}
            c.out['evals'] += 2
            c.out['keys'] += ['eigh|%d|%s|%d|%d' % (N, sig, D, r) for r in range(2)]
            try:
                l, Q = algopy.eigh(x)
            except Exception as ex:
                c.fail('C08|eigh|raises|%s' % pattern, case, {'error': '%s: %s' % (type(ex).__name__, str(ex)[:160])})
                continue
            if not np.array_equal(x.data, A):
                c.fail('C08|eigh|operand modified', case, {})
                continue
            if not check_eigh(c, 'eigh(%s)' % pattern, A, l, Q, case, 1e5):
                continue
            # the eigenvalue series is unique: compare with the constructed one (sorted at each order by construction)
            for p in range(2):
                if not np.allclose(l.data[:, p], lams[p], atol=1e-9):
                    c.fail('C08|eigh(%s)|eigenvalue series' % pattern, dict(case, direction=p), {'got': l.data[:, p].tolist(), 'expected': lams[p].tolist()})
                    break
    c.out['samples'] = [{'factorization': 'eigh', 'N': N, 'split_signatures_in_unit': u['sigs'][:5], 'D': DMENU[tier]}]


def conv_f(Xs, Ys, d):
    return sum(np.dot(Xs[i], Ys[d - i]) for i in range(d + 1))


def run_large(c, u):
    """matrices larger than anything the enumerations reach (a kernel may switch its formulation with the size): symmetric
    17 x 17 and 24 x 24 with well separated eigenvalues, and a 10 x 8 / 8 x 10 svd (Jordan-Wielandt matrix of size 18);
    defining equations in floating point with a tolerance relative to the majorant"""
    rng = np.random.default_rng(77)
    for N in (17, 24):
        D, P = 3, 2
        Q0, _ = np.linalg.qr(rng.normal(size=(N, N)))
        data = np.zeros((D, P, N, N))
        for p in range(P):
            lam = np.arange(N) * 1.5 + 0.25 * p
            data[0, p] = Q0.dot(np.diag(lam)).dot(Q0.T)
            data[0, p] = 0.5 * (data[0, p] + data[0, p].T)
        H = np.round(rng.uniform(-1, 1, size=(D - 1, P, N, N)) * 8) / 8.0
        data[1:] = H + np.swapaxes(H, -1, -2)
        c.out['evals'] += P
        c.out['keys'] += ['eigh large|%d|%d' % (N, p) for p in range(P)]
        case = {'fn': 'eigh', 'N': N, 'D': D, 'large': True}
        try:
            l, Q = algopy.eigh(UTPM(data.copy()))
        except Exception as ex:
            c.fail('C08|eigh|large|raises', case, {'error': str(ex)[:160]})
            continue
        for p in range(P):
            As = [data[d, p] for d in range(D)]
            Qs = [Q.data[d, p] for d in range(D)]
            Ls = [np.diag(l.data[d, p]) for d in range(D)]
            bad = None
            for d in range(D):
                r1 = np.abs(conv_f(As, Qs, d) - conv_f(Qs, Ls, d)).max()
                r2 = np.abs(conv_f([q.T for q in Qs], Qs, d) - (np.eye(N) if d == 0 else 0)).max()
                if r1 > 1e-8 * (1 + np.abs(data[:, p]).max()) * N or r2 > 1e-9 * N:
                    bad = (d, float(r1), float(r2))
                    break
            if bad:
                c.fail('C08|eigh|large N|AQ=QL or QtQ=I|first_bad_order=%d' % bad[0], dict(case, direction=p), {'residual_AQ_QL': bad[1], 'residual_QtQ': bad[2]})
                break
    for (M, N) in ((10, 8), (8, 10)):
        if M > N:
            continue            # the library refuses tall matrices explicitly (see section 10.2)
        D, P = 3, 1
        data = np.round(rng.uniform(-1, 1, size=(D, P, M, N)) * 8) / 8.0
        data[0, 0, :, :M] += np.diag(np.arange(M) * 2.0 + 3.0)
        c.out['evals'] += 1
        c.out['keys'] += ['svd large|%d|%d' % (M, N)]
        case = {'fn': 'svd', 'M': M, 'N': N, 'D': D, 'large': True}
        try:
            U, sv, V = algopy.svd(UTPM(data.copy()))
        except Exception as ex:
            c.fail('C08|svd|large|raises', case, {'error': str(ex)[:160]})
            continue
        Us = [U.data[d, 0] for d in range(D)]
        Vs = [V.data[d, 0] for d in range(D)]
        Ss = []
        for d in range(D):
            Sd = np.zeros((M, N))
            Sd[:M, :M] = np.diag(sv.data[d, 0])
            Ss.append(Sd)
        for d in range(D):
            US = [conv_f(Us, Ss, k) for k in range(D)]
            r = np.abs(conv_f(US, [v.T for v in Vs], d) - data[d, 0]).max()
            if r > 1e-7 * (1 + np.abs(data).max()) * N:
                c.fail('C08|svd|large|USVt=A|first_bad_order=%d' % d, case, {'residual': float(r)})
                break


def run_eigh_generic(c, u):
    tier = u['tier']
    if u.get('large', True):
        run_large(c, u)
    for N in (1, 2, 3):
        bases = []
        for flat in itertools.product((-1, 0, 1), repeat=N * (N + 1) // 2):
            S = np.zeros((N, N))
            S[np.triu_indices(N)] = flat
            S = S + S.T + np.diag(np.arange(N) * 3.0)
            w = np.linalg.eigvalsh(S)
            if N == 1 or np.min(np.diff(w)) > 0.5:
                bases.append(S)
        P = len(bases)
        for D in DMENU[tier]:
            A = np.zeros((D, P, N, N))
            A[0] = np.array(bases)
            A[1:] = fills((N, N), D, P, N + D, sym=True)
            x = UTPM(A.copy())
            c.out['evals'] += P
            c.out['keys'] += ['eighg|%d|%d|%d' % (N, D, i) for i in range(P)]
            try:
                l, Q = algopy.eigh(x)
            except Exception as ex:
                c.fail('C08|eigh|raises|generic', {'fn': 'eigh', 'N': N, 'D': D}, {'error': str(ex)[:160]})
                continue
            check_eigh(c, 'eigh(generic)', A, l, Q, {'fn': 'eigh_generic', 'N': N, 'D': D}, 1e4)


def run_eigh_close(c, u):
    """distinct eigenvalues that are CLOSE RELATIVE TO THEIR MAGNITUDE (far from the origin): they must still be treated as
    distinct (gap >> the absolute threshold of the block detection)"""
    from . import c11 as C11
    tier = u['tier']
    for spectrum in [(400.0, 1000.0, 1000.005, 1700.0), (-2100.0, -2099.99, 3.0, 50.0), (1000.0, 1000.02, 2000.0), (5.0e4, 5.0e4 + 0.25, 7.0e4)]:
        N = len(spectrum)
        Q = C11._orth(N, 1)
        A0 = Q.dot(np.diag(spectrum)).dot(Q.T)
        A0 = 0.5 * (A0 + A0.T)
        for D in (1, 2, 3):
            P = 2
            A = np.zeros((D, P, N, N))
            A[0] = A0
            A[1:] = fills((N, N), D, P, N + D, sym=True) * 0.125
            x = UTPM(A.copy())
            c.out['evals'] += P
            c.out['keys'] += ['eighclose|%s|%d|%d' % (spectrum, D, p) for p in range(P)]
            case = {'fn': 'eigh_close', 'spectrum': list(spectrum), 'D': D}
            try:
                l, Qf = algopy.eigh(x)
            except Exception as ex:
                c.fail('C08|eigh|raises|close eigenvalues far from the origin', case, {'error': str(ex)[:160]})
                continue
            # residuals relative to the size of A; first-order eigenvalue coefficients against perturbation theory
            if not check_eigh(c, 'eigh(close, large)', A, l, Qf, case, 1e7):
                continue
            if D >= 2:
                w, V = np.linalg.eigh(A0)
                for p in range(P):
                    l1 = np.array([V[:, i].dot(A[1, p]).dot(V[:, i]) for i in range(N)])
                    if not np.allclose(l.data[1, p], l1, atol=1e-6 * (1 + np.abs(l1).max())):
                        c.fail('C08|eigh(close, large)|first-order eigenvalues', dict(case, direction=p), {'got': l.data[1, p].tolist(), 'expected': l1.tolist()})
                        break


def run_eig(c, u):
    for N in (2, 3):
        bases = []
        for flat in itertools.product((-1, 0, 1), repeat=N * N):
            B = np.array(flat, dtype=float).reshape(N, N) + np.diag(np.arange(N) * 3.0)
            w = np.linalg.eigvals(B)
            if np.all(np.abs(w.imag) < 1e-12) and np.min(np.abs(w[:, None] - w[None, :]) + np.eye(N) * 9) > 0.8:
                bases.append(B)
        bases = bases[:BATCH]
        P = len(bases)
        for D in (1, 2):
            A = np.zeros((D, P, N, N))
            A[0] = np.array(bases)
            A[1:] = fills((N, N), D, P, N + D)
            x = UTPM(A.copy())
            c.out['evals'] += P
            c.out['keys'] += ['eig|%d|%d|%d' % (N, D, i) for i in range(P)]
            try:
                l, Q = algopy.eig(x)
            except Exception as ex:
                c.fail('C08|eig|raises', {'fn': 'eig', 'N': N, 'D': D}, {'error': str(ex)[:160]})
                continue
            for p in range(P):
                ld = np.real_if_close(l.data[:, p])
                Qd = np.real_if_close(Q.data[:, p])
                if np.iscomplexobj(ld) or np.iscomplexobj(Qd):
                    c.out['counters']['eig_complex_output_skipped'] = c.out['counters'].get('eig_complex_output_skipped', 0) + 1
                    continue
                As, Qs = L7.mser(A[:, p]), L7.mser(np.asarray(Qd, dtype=float))
                Ls = [QS.lift(np.diag(np.asarray(ld, dtype=float)[d])) for d in range(D)]
                cond = np.linalg.cond(np.asarray(Qd, dtype=float)[0]) * 10
                if not check_eq(c, 'eig', 'AQ=Qdiag(l)', L7.ms_mul(As, Qs), L7.ms_mul(Qs, Ls), L7.ms_mul(L7.ms_abs(As), L7.ms_abs(Qs)), cond, {'fn': 'eig', 'N': N, 'D': D, 'direction': p, 'A0': A[0, p].tolist()}, 1e4):
                    break


def run_svd(c, u):
    tier = u['tier']
    for (M, N) in [(1, 1), (2, 2), (3, 3), (2, 3), (1, 3)]:
        bases = []
        for A0 in rect_matrices(M, N) if M == N else rect_matrices(N, M):
            E = np.zeros((M, N))
            for k in range(min(M, N)):
                E[k, k] = [3.0, 1.5, 0.5][k]
            B = (A0 if M == N else A0.T) + E
            s = np.linalg.svd(B, compute_uv=False)
            if s.min() > 0.4 and (len(s) == 1 or np.min(np.abs(np.diff(s))) > 0.5):
                bases.append(B)
        bases = bases[:BATCH]
        P = len(bases)
        K = min(M, N)
        for D in DMENU[tier]:
            A = np.zeros((D, P, M, N))
            A[0] = np.array(bases)
            A[1:] = fills((M, N), D, P, M + N + D)
            x = UTPM(A.copy())
            case = {'fn': 'svd', 'M': M, 'N': N, 'D': D}
            c.out['evals'] += P
            c.out['keys'] += ['svd|%d|%d|%d|%d' % (M, N, D, i) for i in range(P)]
            try:
                U, s, V = algopy.svd(x)
            except Exception as ex:
                c.fail('C08|svd|raises|%s' % ('square' if M == N else 'wide'), case, {'error': '%s: %s' % (type(ex).__name__, str(ex)[:160])})
                continue
            for p in range(P):
                cs = dict(case, direction=p, A0=A[0, p].tolist())
                As, Us, Vs = L7.mser(A[:, p]), L7.mser(U.data[:, p]), L7.mser(V.data[:, p])
                Ss = []
                for d in range(D):
                    Sd = np.zeros((M, N))
                    Sd[:K, :K] = np.diag(s.data[d, p])
                    Ss.append(QS.lift(Sd))
                scale = 10.0 * np.linalg.cond(A[0, p])
                USV = L7.ms_mul(L7.ms_mul(Us, Ss), transpose_s(Vs))
                ok = check_eq(c, 'svd', 'USVt=A', USV, As, L7.ms_mul(L7.ms_mul(L7.ms_abs(Us), L7.ms_abs(Ss)), L7.ms_abs(transpose_s(Vs))), scale, cs, 1e4)
                ok = ok and check_eq(c, 'svd', 'UtU=I', L7.ms_mul(transpose_s(Us), Us), ident_series(M, D), L7.ms_mul(L7.ms_abs(transpose_s(Us)), L7.ms_abs(Us)), scale, cs, 1e4)
                ok = ok and check_eq(c, 'svd', 'VtV=I', L7.ms_mul(transpose_s(Vs), Vs), ident_series(N, D), L7.ms_mul(L7.ms_abs(transpose_s(Vs)), L7.ms_abs(Vs)), scale, cs, 1e4)
                if ok:
                    s0 = s.data[0, p]
                    if np.any(s0 < 0) or np.any(np.diff(s0) > 1e-9) or not np.allclose(s0, np.linalg.svd(A[0, p], compute_uv=False), atol=1e-10):
                        c.fail('C08|svd|s_0 not the descending non-negative singular values', cs, {'s0': s0.tolist()})
                        ok = False
                if not ok:
                    break
            # homogeneity: the same data at scale 2^-33 with the gap threshold scaled accordingly (the documented epsilon
            # argument) has the same U, V and scaled singular values
            if D == DMENU[tier][-1]:
                sc = 2.0 ** -33
                c.out['evals'] += P
                c.out['keys'] += ['svd scaled|%d|%d|%d|%d' % (M, N, D, i) for i in range(P)]
                try:
                    U2, s2, V2 = UTPM.svd(UTPM(A * sc), epsilon=1e-8 * sc)
                    ok2 = (np.allclose(s2.data / sc, s.data, rtol=1e-9, atol=1e-9) and np.allclose(U2.data, U.data, rtol=1e-9, atol=1e-9)
                           and np.allclose(V2.data, V.data, rtol=1e-9, atol=1e-9))
                    if not ok2:
                        c.fail('C08|svd|scaled data with scaled epsilon differs', dict(case, scale='2^-33'),
                               {'max_ds': float(np.abs(s2.data / sc - s.data).max()), 'max_dU': float(np.abs(U2.data - U.data).max())})
                except Exception as ex:
                    c.fail('C08|svd|scaled raises', dict(case, scale='2^-33'), {'error': '%s: %s' % (type(ex).__name__, str(ex)[:160])})
                if M == N:
                    S = A + np.swapaxes(A, -1, -2)
                    try:
                        l1, Q1 = UTPM.eigh(UTPM(S.copy()))
                        l2, Q2 = UTPM.eigh(UTPM(S * sc), epsilon=1e-8 * sc)
                        if not (np.allclose(l2.data / sc, l1.data, rtol=1e-9, atol=1e-9) and np.allclose(Q2.data, Q1.data, rtol=1e-9, atol=1e-9)):
                            c.fail('C08|eigh|scaled data with scaled epsilon differs', dict(case, scale='2^-33'), {})
                    except Exception as ex:
                        c.fail('C08|eigh|scaled raises', dict(case, scale='2^-33'), {'error': '%s: %s' % (type(ex).__name__, str(ex)[:160])})


def run_patterns(c, u):
    """all 2^(D-1) SUPPORT patterns of the higher coefficients (which orders are exactly zero) and the memory layouts
    {C, per-slice Fortran (transposing view), strided}, on representative base matrices of every factorization"""
    tier = u['tier']
    D = 4 if tier == 'quick' else 5
    pats = list(itertools.product((0, 1), repeat=D - 1))
    P = len(pats)

    def build(A0, sym, off):
        A = np.zeros((D, P) + A0.shape)
        A[0] = A0
        dense = fills(A0.shape, D, P, off, sym=sym)
        for p, pat in enumerate(pats):
            for k, on in enumerate(pat):
                if on:
                    A[k + 1, p] = dense[k, p]
        return A
    jobs = []
    for A0 in [rect_matrices(3, 3)[i] for i in (0, 7, 4000, 9000)] + [rect_matrices(3, 2)[i] for i in (0, 100)] + [rect_matrices(2, 3)[5]]:
        jobs.append(('qr', A0, False))
    for A0 in [spd_matrices(3)[i] for i in (0, 5, 300)] + [spd_matrices(2)[3]]:
        jobs.append(('cholesky', A0, True))
    for A0 in [L7.base_matrices(3)[i] for i in (0, 11, 5000, 11000)]:
        jobs.append(('lu', A0, False))
    for A0 in [np.array([[1.0, 0.5, 0.0], [0.5, 3.0, -1.0], [0.0, -1.0, 6.0]]), np.diag([1.0, 1.0, 4.0]), np.diag([2.0, 2.0, 2.0])]:
        jobs.append(('eigh', A0, True))
    for A0 in [np.array([[3.0, 1.0, 0.0], [-1.0, 1.5, 1.0], [0.0, 1.0, 0.5]]), np.array([[3.0, 1.0, -1.0], [0.0, 1.5, 1.0]])]:
        jobs.append(('svd', A0, False))
    for name, A0, sym in jobs:
        for lay in ('C', 'F', 'strided', 'same-shape view', 'flipped view'):
            A = build(A0, sym, 3 + len(name))
            if lay == 'C':
                x = UTPM(A.copy())
            elif lay == 'same-shape view':
                store = A.copy()
                x = UTPM(store[:store.shape[0]])           # a view whose base has the very same shape
            elif lay == 'flipped view':
                store = np.ascontiguousarray(A[:, :, ::-1, :])
                x = UTPM(store[:, :, ::-1, :])               # same values, rows read backwards from a same-shape base
            elif lay == 'F':
                x = UTPM(np.ascontiguousarray(np.swapaxes(A, -1, -2))).T
            else:
                big = np.full(A.shape[:-1] + (2 * A.shape[-1],), 7.5)
                big[..., ::2] = A
                x = UTPM(big[..., ::2])
            snap = x.data.copy()
            case = {'fn': name, 'layout': lay, 'A0': A0.tolist(), 'D': D}
            c.out['evals'] += P
            c.out['keys'] += ['pat|%s|%s|%s|%d' % (name, lay, A0.tolist(), p) for p in range(P)]
            tag = '%s|support patterns|layout %s' % (name, lay)
            try:
                if name == 'qr':
                    Q, R = algopy.qr(x)
                    for p in range(P):
                        As, Qs, Rs = L7.mser(A[:, p]), L7.mser(Q.data[:, p]), L7.mser(R.data[:, p])
                        cond = np.linalg.cond(A0[:, :min(A0.shape)])
                        if not (check_eq(c, tag, 'QR=A', L7.ms_mul(Qs, Rs), As, L7.ms_mul(L7.ms_abs(Qs), L7.ms_abs(Rs)), cond, dict(case, pattern=list(pats[p]))) and
                                check_eq(c, tag, 'QtQ=I', L7.ms_mul(transpose_s(Qs), Qs), ident_series(Q.data.shape[3], D), L7.ms_mul(L7.ms_abs(transpose_s(Qs)), L7.ms_abs(Qs)), cond, dict(case, pattern=list(pats[p])))):
                            break
                elif name == 'cholesky':
                    Lf = algopy.cholesky(x)
                    for p in range(P):
                        As, Ls = L7.mser(A[:, p]), L7.mser(Lf.data[:, p])
                        if not check_eq(c, tag, 'LLt=A', L7.ms_mul(Ls, transpose_s(Ls)), As, L7.ms_mul(L7.ms_abs(Ls), L7.ms_abs(transpose_s(Ls))), np.linalg.cond(A0), dict(case, pattern=list(pats[p]))):
                            break
                elif name == 'lu':
                    Pm, Lf, Uf = algopy.lu(x)
                    for p in range(P):
                        As, Ps, Ls, Us = L7.mser(A[:, p]), L7.mser(Pm.data[:, p]), L7.mser(Lf.data[:, p]), L7.mser(Uf.data[:, p])
                        if not check_eq(c, tag, 'PLU=A', L7.ms_mul(Ps, L7.ms_mul(Ls, Us)), As, L7.ms_mul(L7.ms_abs(Ls), L7.ms_abs(Us)), np.linalg.cond(A0), dict(case, pattern=list(pats[p]))):
                            break
                elif name == 'eigh':
                    l, Q = algopy.eigh(x)
                    check_eigh(c, tag, A, l, Q, case, 1e5)
                else:
                    U, sv, V = algopy.svd(x)
                    M_, N_ = A0.shape
                    K = min(M_, N_)
                    for p in range(P):
                        As, Us, Vs = L7.mser(A[:, p]), L7.mser(U.data[:, p]), L7.mser(V.data[:, p])
                        Ss = []
                        for d in range(D):
                            Sd = np.zeros((M_, N_))
                            Sd[:K, :K] = np.diag(sv.data[d, p])
                            Ss.append(QS.lift(Sd))
                        USV = L7.ms_mul(L7.ms_mul(Us, Ss), transpose_s(Vs))
                        if not check_eq(c, tag, 'USVt=A', USV, As, L7.ms_mul(L7.ms_mul(L7.ms_abs(Us), L7.ms_abs(Ss)), L7.ms_abs(transpose_s(Vs))), 10 * np.linalg.cond(A0), dict(case, pattern=list(pats[p])), 1e4):
                            break
            except Exception as ex:
                c.fail('C08|%s|raises' % tag, case, {'error': '%s: %s' % (type(ex).__name__, str(ex)[:160])})
                continue
            if not np.array_equal(x.data, snap):
                c.fail('C08|%s|operand modified' % tag, case, {})


def run_unit(u):
    c = Ctx(u)
    k = u['kind']
    if k == 'patterns':
        run_patterns(c, u)
        return c.out
    {'qr': run_qr, 'cholesky': run_cholesky, 'lu': run_lu, 'eigh': run_eigh, 'eigh_generic': run_eigh_generic, 'eigh_close': run_eigh_close, 'eig': run_eig, 'svd': run_svd}[k](c, u)
    return c.out


def replay(case):
    u = dict((k, v) for k, v in case.items() if k in ('kind', 'M', 'N', 'lo', 'hi', 'sigs', 'tier', 'seed'))
    u.setdefault('tier', 'quick')
    if u.get('kind') == 'eigh' and 'sig' in case:
        u['sigs'] = [case['sig']]
    return run_unit(u)['fails']
