"""C09  Forward-mode derivative drivers are exact.

The map f -> extract(f(init(x))) is linear in f, so checking it on EVERY monomial x^alpha, |alpha| <= m, in N variables
is complete for all polynomials of degree <= m.  Enumerated: N in 1..Nmax, all monomials up to degree m, each computed by
two program forms (repeated products, `**`), all integer points of {-2..2}^N for N <= 3 and a fixed covering set for
larger N, all unit direction vectors + dense integer vectors, tensor order d in 1..dmax; scalar- and vector-valued
outputs (jacobian, jac_vec).  Drivers: init_jacobian/extract_jacobian, init_jac_vec/extract_jac_vec,
init_hessian/extract_hessian, init_hess_vec/extract_hess_vec, init_tensor/extract_tensor (vector and full-matrix form).
Each (driver, N) is exercised in a short call history (two live seeded objects, a program that writes into its
argument) so that state remembered between init_* calls shows.
Oracle: exact partial derivatives of monomials (integer arithmetic).  Second part: smooth programs - Jacobian / Hessian
from the seeded drivers against separate single-direction propagations (polarisation computed in the harness).
"""
import itertools
from math import factorial

import numpy as np

from .. import env
from .. import programs as PR
from .. import adjoint as AD
import algopy
from algopy import UTPM

ID = 'C09'
RULE = ('cases = (driver, N, monomial, program form, point[, direction | tensor order]); non-trivial = cases whose exact '
        'derivative is not identically zero; distinct = distinct tuples; plus (smooth program, driver) cases')
ASSUMPTIONS = ['linearity of seed/extract in f: monomials decide all polynomials of the degree bound',
               'tolerance 1e-9 x (1 + max |Taylor coefficient|): extract_tensor multiplies by the float matrix Gamma (C15)']
NMAX = {'quick': 4, 'thorough': 5}
MDEG = {'quick': 3, 'thorough': 4}
DTEN = {'quick': 3, 'thorough': 4}      # tensor units are further limited to 15 (quick) / 35 (thorough) directions
TOL = 1e-9


def bounds(tier):
    return {'N_max': NMAX[tier], 'monomial_degree_max': MDEG[tier], 'tensor_order_max': DTEN[tier], 'tensor_directions_max': 15 if tier == 'quick' else 35, 'points': '{-2..2}^N for N<=3, 7 fixed points otherwise'}


def monomials(N, m):
    out = []
    for deg in range(0, m + 1):
        for a in itertools.product(range(deg + 1), repeat=N):
            if sum(a) == deg:
                out.append(a)
    return out


def points(N, tier):
    if N <= (3 if tier == 'thorough' else 2):
        return [np.array(p, dtype=float) for p in itertools.product((-2, -1, 0, 1, 2), repeat=N)]
    base = [[1, -2, 2, -1, 1], [0, 1, -1, 2, -2], [2, 2, 1, 1, -1], [-1, 0, 2, 0, 1], [1, 1, 1, 1, 1], [-2, 1, 0, -1, 2], [0, 0, 0, 0, 0]]
    return [np.array(b[:N], dtype=float) for b in base]


def mono_eval(alpha, form):
    def f(x):
        y = None
        for k, a in enumerate(alpha):
            if a == 0:
                continue
            if form == 'pow':
                t = x[k] ** a
                y = t if y is None else y * t
            else:
                for _ in range(a):
                    y = x[k] if y is None else y * x[k]
        if y is None:
            y = x[0] * 0.0 + 1.0
        return y
    return f


def dmono(alpha, beta, x):
    """exact value of d^beta x^alpha at the integer point x"""
    v = 1.0
    for a, b, xi in zip(alpha, beta, x):
        if b > a:
            return 0.0
        v *= factorial(a) // factorial(a - b) * xi ** (a - b)
    return float(v)


def unit(N, i):
    e = np.zeros(N)
    e[i] = 1.0
    return e


def vectors(N):
    vs = [unit(N, i) for i in range(N)]
    vs.append(np.array([(-1) ** i * (i + 1) for i in range(N)], dtype=float))
    return vs


def units(tier, seed):
    us = []
    for N in range(1, NMAX[tier] + 1):
        for drv in ('jacobian', 'jac_vec', 'hessian', 'hess_vec', 'vector_valued', 'history'):
            us.append({'kind': 'mono', 'N': N, 'driver': drv, 'tier': tier, 'seed': seed})
        for d in range(1, DTEN[tier] + 1):
            from math import comb
            if comb(N + d - 1, d) > (15 if tier == 'quick' else 35):
                continue            # Gamma is rebuilt by the library on every init/extract call (3.7 s for N=5, d=4): larger ones
                                    # are left to the thorough tier up to 35 directions; the Gamma identity itself is C15
            for form in ('prod', 'pow'):
                us.append({'kind': 'mono', 'N': N, 'driver': 'tensor', 'd': d, 'form': form, 'tier': tier, 'seed': seed})
    for N in range(1, NMAX[tier] + 1):
        for drv in ('jacobian', 'jac_vec', 'hessian', 'hess_vec', 'tensor2', 'tensor3'):
            us.append({'kind': 'vecpoly', 'N': N, 'driver': drv, 'tier': tier, 'seed': seed})
    us.append({'kind': 'dtype', 'tier': tier, 'seed': seed})
    us.append({'kind': 'repeat', 'tier': tier, 'seed': seed})
    us.append({'kind': 'layout', 'tier': tier, 'seed': seed})
    progs = [p for p in PR.depth1()]
    for i in range(0, len(progs), 40):
        us.append({'kind': 'smooth', 'progs': progs[i:i + 40], 'tier': tier, 'seed': seed})
    return us


class Ctx(object):
    def __init__(self, u):
        self.u = u
        self.out = {'evals': 0, 'nontrivial': 0, 'fails': [], 'samples': [], 'counters': {}, 'maxima': {}}
        self.seen = set()

    def check(self, what, sub, got, exp, scale, case):
        self.out['evals'] += 1
        exp = np.asarray(exp, dtype=float)
        if np.any(exp != 0):
            self.out['nontrivial'] += 1
        try:
            got = np.asarray(got, dtype=float)
        except Exception:
            got = None
        sig = 'C09|%s|%s' % (what, sub)
        if got is None or got.shape != exp.shape:
            self.fail(sig + '|shape', case, {'got_shape': list(np.shape(got)) if got is not None else None, 'expected_shape': list(exp.shape)})
            return
        err = np.abs(got - exp) / (1.0 + scale + np.abs(exp))
        w = float(np.nanmax(err)) if err.size else 0.0
        self.out['maxima']['scaled_error'] = max(self.out['maxima'].get('scaled_error', 0.0), w)
        if not np.all(err <= TOL):
            i = np.unravel_index(np.argmax(np.nan_to_num(err, nan=np.inf)), err.shape) if err.ndim else ()
            self.fail(sig + '|value', case, {'index': [int(k) for k in i], 'got': float(got[i]), 'expected': float(exp[i])})

    def fail(self, sig, case, detail):
        if sig in self.seen:
            self.out['counters']['further_failing_cases'] = self.out['counters'].get('further_failing_cases', 0) + 1
            return
        self.seen.add(sig)
        self.out['fails'].append({'sig': sig, 'case': dict(self.u, **case), 'detail': detail})


def run_mono(c, N, drv, tier, only_d=None, only_form=None):
    m = MDEG[tier]
    monos = monomials(N, m)
    pts = points(N, tier)
    if drv == 'tensor' and len(pts) > 7:
        pts = pts[::max(1, len(pts) // 7)]     # init/extract_tensor rebuild Gamma on every call (library cost)
    if drv == 'tensor' and only_d is not None:
        from math import comb
        if comb(N + only_d - 1, only_d) > 15:
            pts = pts[:2]
            monos = [a for a in monos if sum(a) >= only_d - 1]
    grad = lambda al, x: np.array([dmono(al, tuple(int(j == i) for j in range(N)), x) for i in range(N)])

    def hess(al, x):
        H = np.zeros((N, N))
        for i in range(N):
            for j in range(N):
                b = [0] * N
                b[i] += 1
                b[j] += 1
                H[i, j] = dmono(al, b, x)
        return H
    if drv == 'history':
        # state between calls: two seeded objects alive at once; a program that writes into its seeded argument
        for al in [a for a in monos if sum(a) >= 2][:12]:
            for form in ('prod',):
                f = mono_eval(al, form)
                x1, x2 = pts[1 % len(pts)], pts[-2]
                case = {'alpha': list(al), 'form': form}
                try:
                    X1 = UTPM.init_hessian(x1)
                    X2 = UTPM.init_hessian(x2)
                    H1 = UTPM.extract_hessian(N, f(X1))
                    c.check('hessian', 'two live seeds', H1, hess(al, x1), np.abs(hess(al, x1)).max(), case)
                    J1 = UTPM.init_jacobian(x1)
                    J2 = UTPM.init_jacobian(x2)
                    c.check('jacobian', 'two live seeds', UTPM.extract_jacobian(f(J1)), grad(al, x1), 0.0, case)
                    # a program that overwrites an entry of its argument
                    def g(x):
                        x[0] = x[0] * 1.0 + 0.0 * x[-1]
                        x[-1] = x[-1] * 1.0
                        return f(x)
                    Hm = UTPM.extract_hessian(N, g(UTPM.init_hessian(x1)))
                    c.check('hessian', 'program writes into its argument', Hm, hess(al, x1), np.abs(hess(al, x1)).max(), case)
                    H3 = UTPM.extract_hessian(N, f(UTPM.init_hessian(x2)))
                    c.check('hessian', 'after a mutating program', H3, hess(al, x2), np.abs(hess(al, x2)).max(), case)
                    T1 = UTPM.init_tensor(2, x1)
                    T2 = UTPM.init_tensor(2, x2)
                    c.check('tensor', 'two live seeds', UTPM.extract_tensor(N, f(T1)), hess(al, x1), np.abs(hess(al, x1)).max(), case)
                except Exception as ex:
                    c.fail('C09|history|raises', case, {'error': '%s: %s' % (type(ex).__name__, str(ex)[:160])})
        return
    for al in monos:
        for form in ('prod', 'pow'):
            if only_form is not None and form != only_form:
                continue
            f = mono_eval(al, form)
            for x in pts:
                case = {'alpha': list(al), 'form': form, 'x': x.tolist()}
                try:
                    if drv == 'jacobian':
                        y = f(UTPM.init_jacobian(x))
                        c.check('jacobian', 'scalar-valued', UTPM.extract_jacobian(y), grad(al, x), 0.0, case)
                    elif drv == 'jac_vec':
                        for v in vectors(N):
                            y = f(UTPM.init_jac_vec(x, v))
                            c.check('jac_vec', 'scalar-valued', UTPM.extract_jac_vec(y), grad(al, x).dot(v), np.abs(grad(al, x)).dot(np.abs(v)), dict(case, v=v.tolist()))
                    elif drv == 'hessian':
                        y = f(UTPM.init_hessian(x))
                        H = hess(al, x)
                        c.check('hessian', 'N=%d' % N if N > 3 else 'N<=3', UTPM.extract_hessian(N, y), H, np.abs(y.data).max(), case)
                    elif drv == 'hess_vec':
                        H = hess(al, x)
                        for v in vectors(N):
                            y = f(UTPM.init_hess_vec(x, v))
                            c.check('hess_vec', 'N=%d' % N if N > 3 else 'N<=3', UTPM.extract_hess_vec(N, y), H.dot(v), np.abs(y.data).max(), dict(case, v=v.tolist()))
                    elif drv == 'tensor':
                        for d in range(1, DTEN[tier] + 1):
                            if only_d is not None and d != only_d:
                                continue
                            y = f(UTPM.init_tensor(d, x))
                            mi = [b for b in monomials(N, d) if sum(b) == d]
                            # order of generate_multi_indices: compare as a mapping multi-index -> value
                            J = algopy.exact_interpolation.generate_multi_indices(N, d)
                            exp = np.array([dmono(al, tuple(int(v) for v in row), x) / np.prod([factorial(int(v)) for v in row]) for row in np.atleast_2d(J)])
                            got = UTPM.extract_tensor(N, y, as_full_matrix=False)
                            c.check('tensor', 'd=%d' % d, got, exp, np.abs(y.data).max(), dict(case, d=d))
                            if d == 2:
                                c.check('tensor', 'full matrix d=2', UTPM.extract_tensor(N, y), hess(al, x), np.abs(y.data).max(), dict(case, d=d))
                except Exception as ex:
                    c.fail('C09|%s|raises' % drv, case, {'error': '%s: %s' % (type(ex).__name__, str(ex)[:160])})
        if drv == 'vector_valued':
            break
    if drv == 'vector_valued':
        # F = (m1, m2, m3): three monomials stacked through a buffer; Jacobian (3,N) and Jacobian-vector products
        trip = [monos[i] for i in (len(monos) // 3, len(monos) // 2, len(monos) - 1)]
        fs = [mono_eval(a, 'prod') for a in trip]

        def F(x):
            y = algopy.zeros(3, dtype=x)
            for k in range(3):
                y[k] = fs[k](x)
            return y
        for x in pts:
            case = {'alphas': [list(a) for a in trip], 'x': x.tolist()}
            Jx = np.array([grad(a, x) for a in trip])
            try:
                c.check('jacobian', 'vector-valued', UTPM.extract_jacobian(F(UTPM.init_jacobian(x))), Jx, 0.0, case)
                for v in vectors(N):
                    c.check('jac_vec', 'vector-valued', UTPM.extract_jac_vec(F(UTPM.init_jac_vec(x, v))), Jx.dot(v), np.abs(Jx).dot(np.abs(v)).max(), dict(case, v=v.tolist()))
            except Exception as ex:
                c.fail('C09|vector_valued|raises', case, {'error': '%s: %s' % (type(ex).__name__, str(ex)[:160])})
    c.out['samples'] = [{'N': N, 'driver': drv, 'monomials': len(monos), 'points': len(pts), 'forms': ['prod', 'pow']}]


def cvec(L):
    return np.array([(-1) ** i * (i + 1) for i in range(L)], dtype=float)


def cpow2(L):
    return np.array([(-1) ** i * 2.0 ** (i % 3) for i in range(L)])


def cmat(L, M):
    return np.array([[(i + 1) * (-1) ** j + j for j in range(M)] for i in range(L)], dtype=float)


def vec_forms(N, L):
    """vectorised integer polynomial programs: a polynomial of lower rank combined with a constant array of HIGHER rank
    (length L chosen to collide with the number of directions P, the number of coefficients D and N), reflected forms,
    and in-place updates with an operand of lower rank.  Every form returns an array; the harness contracts it with
    integer weights (scalar output) and, for 1-D results, also reads it as a vector-valued output."""
    S = lambda x: x[0] * x[N - 1] + x[0]
    fs = [
        ('S*c', lambda x: S(x) * cvec(L)),
        ('c*S', lambda x: cvec(L) * S(x)),
        ('S+c', lambda x: S(x) + cvec(L)),
        ('c-S', lambda x: cvec(L) - S(x)),
        ('S-c', lambda x: S(x) - cvec(L)),
        ('S/c', lambda x: S(x) / cpow2(L)),
        ('S*C', lambda x: S(x) * cmat(L, 2)),
        ('C*S', lambda x: cmat(2, L) * S(x)),
        ('V*C', lambda x: (x * 1.0) * cmat(L, N)),
        ('C+V', lambda x: cmat(L, N) + x * 2.0),
        ('V/C', lambda x: (x * 1.0) / (2.0 ** (cmat(L, N) % 3))),
    ]

    def ip(name, upd, first=None):
        def f(x):
            y = first(x) if first is not None else x * cvec(N)
            y = upd(y, x)
            return y
        fs.append((name, f))

    def imul(y, x):
        y *= x[N - 1]
        return y

    def iadd(y, x):
        y += x[0] * x[N - 1]
        return y

    def isub(y, x):
        y -= x[0]
        return y

    def idiv(y, x):
        y /= 2.0
        y *= x[0]
        return y

    def imulc(y, x):
        y *= 3.0
        y += x[N - 1]
        return y
    for nm, upd in (('imul', imul), ('iadd', iadd), ('isub', isub), ('idiv', idiv), ('imulc', imulc)):
        ip('V;%s S' % nm, upd)
        ip('(S*c);%s S' % nm, upd, lambda x: S(x) * cvec(L))
        ip('(V*C);%s S' % nm, upd, lambda x: (x * 1.0) * cmat(L, N))

    def imulv(y, x):
        y *= x
        return y

    def iaddv(y, x):
        y += x
        return y
    ip('(V*C);imul V', imulv, lambda x: (x * 1.0) * cmat(L, N))
    ip('(V*C);iadd V', iaddv, lambda x: (x * 1.0) * cmat(L, N))
    if L == 1:
        # products of two POLYNOMIAL operands of every rank combination (non-symmetric matrices), and in-place updates whose
        # right operand is an element / a row of the updated array itself
        Mx = lambda x: (x * 1.0) * cmat(N, N)              # M[i,j] = c[i,j] x[j]
        fs.append(('dot(V,M)', lambda x: algopy.dot(x, Mx(x))))
        fs.append(('dot(M,V)', lambda x: algopy.dot(Mx(x), x)))
        fs.append(('dot(V,V)', lambda x: algopy.dot(x, x * cvec(N)) * cvec(2)))
        fs.append(('dot(M,M)', lambda x: algopy.dot(Mx(x), Mx(x) + cmat(N, N).T)))
        fs.append(('dot(V,dot(M,V))', lambda x: algopy.dot(x * cvec(N), algopy.dot(Mx(x), x)) * cvec(2)))
        fs.append(('outer(V,V)', lambda x: algopy.outer(x, x * cvec(N) + 1.0)))
        # accumulator idiom: s = 0; s += x[0]; s += x[1] ... and the first addend is used again afterwards
        def accum(x):
            s = 0
            for i in range(N):
                s += x[i]
            return s * x[0] * cvec(2)
        fs.append(('s=0;s+=x[i];s*x[0]', accum))

        def accum2(x):
            s = 0.0
            s = s + x[0]
            s *= x[N - 1]
            return (s + x[0]) * cvec(2)
        fs.append(('s=0.0+x[0];s*=x[-1]', accum2))
        # data-dependent branches on comparisons of two polynomials whose base values are EQUAL at every point (ties): Python
        # floats take the else branch for > and <, the if branch for >= and <=; the reference is the polynomial of that branch
        def br(op, x):
            a = x[0] * x[0]
            b = x[0] * x[0] + 0.0 * x[N - 1]
            return (a * x[N - 1] if op(a, b) else b * x[0] + x[N - 1]) * cvec(2)
        import operator as _op
        for onm, o, taken_if in (('>', _op.gt, False), ('<', _op.lt, False), ('>=', _op.ge, True), ('<=', _op.le, True)):
            fs.append(('branch a%sb at a tie' % onm, (lambda x, o=o: br(o, x)),
                       (lambda x, t=taken_if: ((x[0] * x[0]) * x[N - 1] if t else (x[0] * x[0]) * x[0] + x[N - 1]) * cvec(2))))
        # both operands the very same object
        fs.append(('dot(x,x) same object', lambda x: algopy.dot(x, x) * cvec(2) + x[0]))

        def same_mm(x):
            M = Mx(x)
            return algopy.dot(M, M)
        fs.append(('dot(M,M) same object', same_mm))
        fs.append(('outer(x,x) same object', lambda x: algopy.outer(x, x) * cmat(N, N)))
        # structure operations with non-default offsets on a non-symmetric polynomial matrix
        Ox = lambda x: algopy.outer(x, x * cvec(N) + 1.0)
        for k in (-2, -1, 1, 2):
            fs.append(('triu(outer,%d)' % k, lambda x, k=k: algopy.triu(Ox(x), k)))
            fs.append(('tril(outer,%d)' % k, lambda x, k=k: algopy.tril(Ox(x), k)))
        for k in (-1, 0, 1):
            fs.append(('diag(outer,%d)' % k, lambda x, k=k: algopy.diag(Ox(x), k) * cvec(max(N - abs(k), 0)) if N - abs(k) > 0 else x * 1.0))
            fs.append(('diag(V,%d)*M' % k, lambda x, k=k: algopy.diag(x * x, k)[:N, :N] * cmat(N, N)))
        # rectangular polynomial matrices (wide and tall) under triu / tril with offsets
        if N >= 2:
            Wd = lambda x: algopy.outer(x[:N - 1], x * cvec(N) + 1.0)          # (N-1, N): wide
            Tl = lambda x: algopy.outer(x * cvec(N) + 1.0, x[:N - 1])          # (N, N-1): tall
            for k in (-1, 0, 1, 2):
                fs.append(('tril(wide,%d)' % k, lambda x, k=k: algopy.tril(Wd(x), k)))
                fs.append(('triu(tall,%d)' % k, lambda x, k=k: algopy.triu(Tl(x), k)))
                fs.append(('tril(tall,%d)' % k, lambda x, k=k: algopy.tril(Tl(x), k)))
        # discrete Fourier transforms with cropping / zero padding: real(ifft(fft(x), n=m)) is a real linear map L_m (reference:
        # L_m from NumPy applied to the identity), squared element-wise to make it non-linear
        for m in sorted(set([max(N - 1, 1), N, N + 2])):
            Lm = np.real(np.fft.ifft(np.fft.fft(np.eye(N), axis=0), n=m, axis=0))
            Fm = np.real(np.fft.fft(np.eye(N), n=m, axis=0))
            fs.append(('real(ifft(fft(x),n=%d))^2' % m, (lambda x, m=m: algopy.real(algopy.fft.ifft(algopy.fft.fft(x), n=m)) ** 2),
                       (lambda x, Lm=Lm: np.dot(Lm, x) ** 2)))
            fs.append(('real(fft(x,n=%d))*c' % m, (lambda x, m=m: algopy.real(algopy.fft.fft(x * x, n=m)) * cvec(m)),
                       (lambda x, Fm=Fm, m=m: np.dot(Fm, x * x) * cvec(m))))
        # constants and polynomials of rank 3 (cubic shapes, not symmetric in any pair of axes)
        C3 = np.array([(-1) ** (i + j) * (1 + i + 2 * j + 4 * k) for i in range(N) for j in range(N) for k in range(N)], dtype=float).reshape(N, N, N)
        C32 = C3[:, :, :2] if N >= 2 else C3
        fs.append(('dot(V,C3)', lambda x: algopy.dot(x, C32)))
        fs.append(('dot(M,C3)', lambda x: algopy.dot(Mx(x), C32)))
        fs.append(('dot(C3,V)', lambda x: algopy.dot(C3, x * cvec(N))))
        X3 = lambda x: (x * 1.0) * C3 + algopy.reshape(x * cvec(N), (N, 1, 1))
        fs.append(('dot(V*V,dot(dot(V,C3),V))', lambda x: algopy.dot(x * x, algopy.dot(algopy.dot(x, C3), x)) * cvec(2)))
        fs.append(('dot(dot(M,C3),V)', lambda x: algopy.dot(algopy.dot(Mx(x), C3), x * cvec(N))))
        fs.append(('T3*X3', lambda x: X3(x).T * X3(x)))
        for ax in (0, 1, 2, -1, -3):
            fs.append(('sum(X3*X3,axis=%d)' % ax, lambda x, ax=ax: algopy.sum(X3(x) * X3(x), axis=ax)))
        fs.append(('sum(V*V,axis=0)', lambda x: algopy.sum(x * x * cvec(N), axis=0) * cvec(2)))
        # linear solves with a CONSTANT non-symmetric matrix (reference: the inverse applied to the polynomial right-hand side)
        Cs = cmat(N, N) + 3.0 * N * np.eye(N)
        Ci = np.linalg.inv(Cs)
        # (the library asks for a 2-D right-hand side and refuses vectors explicitly)
        fs.append(('solve(C,V*V)', (lambda x: algopy.solve(Cs, algopy.reshape(x * x + x[0], (N, 1)))), (lambda x: np.dot(Ci, np.reshape(x * x + x[0], (N, 1))))))
        fs.append(('solve(C,M)', (lambda x: algopy.solve(Cs, Mx(x))), (lambda x: np.dot(Ci, Mx(x)))))
        fs.append(('transpose(T3)', lambda x: algopy.transpose(X3(x)) * C3))

        def own(name, upd, const_first):
            def f(x):
                y = algopy.zeros(N + 1, dtype=x)
                y[0] = 4.0 if const_first else x[0] * x[N - 1] + 2.0
                y[1:] = x * x + x[0]
                return upd(y)
            fs.append((name, f))

        def d0(y):
            y /= y[0]
            return y

        def m0(y):
            y *= y[0]
            return y

        def a0(y):
            y += y[0]
            y -= y[N]
            return y

        def mrow(y):
            z = algopy.reshape(algopy.zeros(2 * (N + 1), dtype=y), (2, N + 1))
            z[0] = y
            z[1] = y * 2.0
            z *= z[0]
            z += z[1]
            return z
        own('buf;idiv by own constant element', d0, True)
        own('buf;imul by own element', m0, False)
        own('buf;imul by own constant element', m0, True)
        own('buf;iadd,isub own elements', a0, False)
        own('buf2d;imul,iadd own rows', mrow, False)
    return fs


def run_vecpoly(c, N, drv, tier):
    from ..ref import qpoly
    from math import comb
    d = {'tensor2': 2, 'tensor3': 3}.get(drv)
    if d is not None and comb(N + d - 1, d) > (15 if tier == 'quick' else 21):
        return
    pts = [np.array([2, -1, 3, 1, -2][:N], dtype=float), np.array([-1, 2, 1, -3, 2][:N], dtype=float)]
    v = np.array([(-1) ** i * (i + 1) for i in range(N)], dtype=float)
    seeders = {'jacobian': lambda x: UTPM.init_jacobian(x), 'jac_vec': lambda x: UTPM.init_jac_vec(x, v),
               'hessian': lambda x: UTPM.init_hessian(x), 'hess_vec': lambda x: UTPM.init_hess_vec(x, v),
               'tensor2': lambda x: UTPM.init_tensor(2, x), 'tensor3': lambda x: UTPM.init_tensor(3, x)}
    X0 = seeders[drv](pts[0])
    D, P = X0.data.shape[:2]
    Ls = sorted(set([1, 2, 3, 4, N, P, D, P + 1]))
    if d is not None and comb(N + d - 1, d) > 15:
        Ls = sorted(set([1, N, P, D]))          # Gamma is rebuilt on every init / extract call
    c.out['lists'] = {}
    for L in Ls:
        for item in vec_forms(N, L):
            name, f = item[0], item[1]
            fref = item[2] if len(item) > 2 else f          # reference program on exact polynomials (same function unless given)
            try:
                sym = fref(qpoly.variables(N))
            except Exception as ex:
                c.fail('C09|vecpoly|reference raises|%s' % name, {'form': name, 'L': L}, {'error': str(ex)[:160]})
                continue
            sym = np.asarray(sym, dtype=object)
            W = np.arange(1, sym.size + 1, dtype=float).reshape(sym.shape) * np.where(np.arange(sym.size).reshape(sym.shape) % 2, -1.0, 1.0)
            tot = qpoly.Poly.const(N, 0)
            for w, q in zip(W.ravel(), sym.ravel()):
                tot = tot + qpoly.as_poly(N, q) * int(w)
            for x in pts:
                fx = [Fraction_(t) for t in x]
                case = {'form': name, 'L': L, 'x': x.tolist(), 'P': int(P), 'D': int(D)}
                g = np.array([float(tot.diff(i).eval(fx)[0]) for i in range(N)])
                H = np.array([[float(tot.diff(i).diff(j).eval(fx)[0]) for j in range(N)] for i in range(N)])
                try:
                    Y = f(seeders[drv](x))
                    if not isinstance(Y, UTPM) or Y.shape != sym.shape:
                        c.out['evals'] += 1
                        c.fail('C09|vecpoly|%s|%s|shape' % (drv, name), case, {'got_shape': list(np.shape(Y)), 'expected_shape': list(sym.shape)})
                        continue
                    y = algopy.sum(Y * W)
                    sc = float(np.abs(Y.data).max()) * float(np.abs(W).max()) * W.size
                    sub = '%s|L=%s' % (name, 'P' if L == P else 'D' if L == D else 'N' if L == N else 'other')
                    if drv == 'jacobian':
                        c.check('vecpoly jacobian', sub, UTPM.extract_jacobian(y), g, sc, case)
                        if sym.ndim == 1:
                            Jv = np.array([[float(qpoly.as_poly(N, q).diff(i).eval(fx)[0]) for i in range(N)] for q in sym])
                            c.check('vecpoly jacobian vector-valued', sub, UTPM.extract_jacobian(Y), Jv, sc, case)
                    elif drv == 'jac_vec':
                        c.check('vecpoly jac_vec', sub, UTPM.extract_jac_vec(y), g.dot(v), sc, case)
                        if sym.ndim == 1:
                            Jv = np.array([[float(qpoly.as_poly(N, q).diff(i).eval(fx)[0]) for i in range(N)] for q in sym])
                            c.check('vecpoly jac_vec vector-valued', sub, UTPM.extract_jac_vec(Y), Jv.dot(v), sc, case)
                    elif drv == 'hessian':
                        c.check('vecpoly hessian', sub, UTPM.extract_hessian(N, y), H, sc, case)
                    elif drv == 'hess_vec':
                        c.check('vecpoly hess_vec', sub, UTPM.extract_hess_vec(N, y), H.dot(v), sc, case)
                    else:
                        J = np.atleast_2d(algopy.exact_interpolation.generate_multi_indices(N, d))
                        exp = []
                        for row in J:
                            q = tot
                            for i, k in enumerate(row):
                                for _ in range(int(k)):
                                    q = q.diff(i)
                            exp.append(float(q.eval(fx)[0]) / np.prod([factorial(int(k)) for k in row]))
                        c.check('vecpoly tensor d=%d' % d, sub, UTPM.extract_tensor(N, y, as_full_matrix=False), np.array(exp), sc, case)
                except Exception as ex:
                    c.out['evals'] += 1
                    c.fail('C09|vecpoly|%s|%s|raises' % (drv, name), case, {'error': '%s: %s' % (type(ex).__name__, str(ex)[:160])})
    c.out['samples'] = [{'N': N, 'driver': drv, 'P': int(P), 'D': int(D), 'constant_lengths': [int(l) for l in Ls], 'forms': [it[0] for it in vec_forms(N, 1)]}]


def Fraction_(t):
    from fractions import Fraction
    return Fraction(int(t))


def run_smooth(c, progs, seed):
    NX = PR.NX
    for prog in progs:
        if PR.in_domain(prog, [PR.POINTS[0]]) is not None:
            continue
        x = np.array(PR.POINTS[0])
        try:
            y0, _ = PR.run(prog, x.copy())
            yj, _ = PR.run(prog, UTPM.init_jacobian(x))
            if not isinstance(yj, UTPM):
                continue
            J = np.asarray(UTPM.extract_jacobian(yj))
        except Exception:
            c.out['counters']['forward_unsupported'] = c.out['counters'].get('forward_unsupported', 0) + 1
            continue
        ps = PR.prog_str(prog)
        case = {'prog': prog}
        # reference: one single-direction propagation per input variable
        cols = []
        for i in range(NX):
            d = np.zeros((2, 1, NX))
            d[0, 0] = x
            d[1, 0, i] = 1.0
            cols.append(AD.forward(prog, d).data[1, 0])
        Jref = np.stack(cols, axis=-1)
        c.check('smooth jacobian', 'prog=%s' % ps, J, Jref, np.abs(Jref).max() if Jref.size else 0.0, case)
        if np.shape(y0) == ():
            try:
                H = UTPM.extract_hessian(NX, PR.run(prog, UTPM.init_hessian(x))[0])
            except Exception as ex:
                c.fail('C09|smooth hessian|raises|prog=%s' % ps, case, {'error': str(ex)[:160]})
                continue
            # polarisation with single-direction second-order propagations
            def c2(v):
                d = np.zeros((3, 1, NX))
                d[0, 0] = x
                d[1, 0] = v
                return AD.forward(prog, d).data[2, 0]
            diag = [c2(unit(NX, i)) for i in range(NX)]
            Href = np.zeros((NX, NX))
            for i in range(NX):
                Href[i, i] = 2 * diag[i]
                for j in range(i):
                    Href[i, j] = Href[j, i] = c2(unit(NX, i) + unit(NX, j)) - diag[i] - diag[j]
            c.check('smooth hessian', 'prog=%s' % ps, H, Href, np.abs(Href).max() + np.abs(np.array(diag)).max(), case)
            v = np.array([(-1) ** i * (i % 3 + 1) / 2.0 for i in range(NX)])
            try:
                Hv = UTPM.extract_hess_vec(NX, PR.run(prog, UTPM.init_hess_vec(x, v))[0])
                c.check('smooth hess_vec', 'prog=%s' % ps, Hv, Href.dot(v), np.abs(Href).dot(np.abs(v)).max(), case)
            except Exception as ex:
                c.fail('C09|smooth hess_vec|raises|prog=%s' % ps, case, {'error': str(ex)[:160]})


def run_dtype(c):
    """base points / directions of every numeric kind: the seeded drivers must give the float64 answer for a NON-polynomial
    program (integer dtypes must be promoted, fractional directions must not be truncated)"""
    def f(x):
        return x[0] / x[1] + algopy.sqrt(x[0] * x[1]) + x[2] * x[0]
    base = [4, 2, 3]
    kinds = {'list of int': lambda: list(base), 'int64': lambda: np.array(base, dtype=np.int64), 'int32': lambda: np.array(base, dtype=np.int32),
             'int16': lambda: np.array(base, dtype=np.int16), 'uint8': lambda: np.array(base, dtype=np.uint8),
             'float64': lambda: np.array(base, dtype=np.float64)}
    xf = np.array(base, dtype=float)
    v = np.array([0.5, -1.5, 0.25])
    N = 3
    ref = {
        'jacobian': UTPM.extract_jacobian(f(UTPM.init_jacobian(xf))),
        'jac_vec': UTPM.extract_jac_vec(f(UTPM.init_jac_vec(xf, v))),
        'hessian': UTPM.extract_hessian(N, f(UTPM.init_hessian(xf))),
        'hess_vec': UTPM.extract_hess_vec(N, f(UTPM.init_hess_vec(xf, v))),
        'tensor2': UTPM.extract_tensor(N, f(UTPM.init_tensor(2, xf)), as_full_matrix=False),
        'tensor3': UTPM.extract_tensor(N, f(UTPM.init_tensor(3, xf)), as_full_matrix=False),
    }
    # the float64 reference itself against closed forms (first and second derivatives of f at (4,2,3))
    x0, x1, x2 = xf
    g = np.array([1 / x1 + 0.5 * np.sqrt(x1 / x0) + x2, -x0 / x1 ** 2 + 0.5 * np.sqrt(x0 / x1), x0])
    c.check('dtype', 'float64 jacobian vs closed form', ref['jacobian'], g, 1.0, {'kind_of_x': 'float64'})
    c.check('dtype', 'float64 jac_vec vs closed form', ref['jac_vec'], g.dot(v), 1.0, {'kind_of_x': 'float64'})
    for kn, mk in kinds.items():
        for vk, vv in (('fractional v', v), ('integer-valued v', np.array([1.0, -2.0, 3.0])), ('int-dtype v', np.array([1, -2, 3]))):
            case = {'kind_of_x': kn, 'kind_of_v': vk}
            try:
                if vk == 'fractional v':
                    c.check('dtype', 'jacobian|x %s' % kn, UTPM.extract_jacobian(f(UTPM.init_jacobian(mk()))), ref['jacobian'], 1.0, case)
                    c.check('dtype', 'hessian|x %s' % kn, UTPM.extract_hessian(N, f(UTPM.init_hessian(mk()))), ref['hessian'], 1.0, case)
                    c.check('dtype', 'tensor d=2|x %s' % kn, UTPM.extract_tensor(N, f(UTPM.init_tensor(2, mk())), as_full_matrix=False), ref['tensor2'], 1.0, case)
                    c.check('dtype', 'tensor d=3|x %s' % kn, UTPM.extract_tensor(N, f(UTPM.init_tensor(3, mk())), as_full_matrix=False), ref['tensor3'], 1.0, case)
                vref = np.asarray(vv, dtype=float)
                rjv = UTPM.extract_jac_vec(f(UTPM.init_jac_vec(xf, vref)))
                rhv = UTPM.extract_hess_vec(N, f(UTPM.init_hess_vec(xf, vref)))
                c.check('dtype', 'jac_vec|x %s|%s' % (kn, vk), UTPM.extract_jac_vec(f(UTPM.init_jac_vec(mk(), vv))), rjv, 1.0, case)
                c.check('dtype', 'hess_vec|x %s|%s' % (kn, vk), UTPM.extract_hess_vec(N, f(UTPM.init_hess_vec(mk(), vv))), rhv, 1.0, case)
            except Exception as ex:
                c.fail('C09|dtype|raises|x %s|%s' % (kn, vk), case, {'error': '%s: %s' % (type(ex).__name__, str(ex)[:160])})


def run_layout(c):
    """the seed point given as a NON-CONTIGUOUS view (reversed, strided, Fortran-ordered / transposed matrix argument):
    every seeding driver must give what it gives for a contiguous copy of the same values, and the analytic derivative"""
    def f(x):
        return x[0] * x[1] * x[2] + x[0] ** 3 - 2.0 * x[1] * x[1] * x[2] + x[3] * x[0]
    xc = np.array([2.0, -1.0, 3.0, 0.5])
    v = np.array([1.0, 2.0, -1.0, 0.5])
    N = 4
    grad = np.array([xc[1] * xc[2] + 3 * xc[0] ** 2 + xc[3], xc[0] * xc[2] - 4 * xc[1] * xc[2], xc[0] * xc[1] - 2 * xc[1] ** 2, xc[0]])
    views = {}
    views['reversed'] = np.array(xc[::-1])[::-1]
    big = np.zeros(2 * N)
    big[::2] = xc
    views['strided'] = big[::2]
    vv = {'reversed': np.array(v[::-1])[::-1], 'strided': np.repeat(v, 2)[::2]}
    drivers = [('jacobian', lambda x, w: UTPM.extract_jacobian(f(UTPM.init_jacobian(x)))),
               ('jac_vec', lambda x, w: UTPM.extract_jac_vec(f(UTPM.init_jac_vec(x, w)))),
               ('hessian', lambda x, w: UTPM.extract_hessian(N, f(UTPM.init_hessian(x)))),
               ('hess_vec', lambda x, w: UTPM.extract_hess_vec(N, f(UTPM.init_hess_vec(x, w)))),
               ('tensor2', lambda x, w: UTPM.extract_tensor(N, f(UTPM.init_tensor(2, x)))),
               ('tensor3', lambda x, w: UTPM.extract_tensor(N, f(UTPM.init_tensor(3, x)), as_full_matrix=False))]
    for nm, drv in drivers:
        ref = np.array(drv(xc.copy(), v.copy()), dtype=float)
        if nm == 'jacobian':
            c.check('layout', 'contiguous jacobian vs closed form', ref, grad, 1.0, {'driver': nm})
        for lay, xv in views.items():
            case = {'driver': nm, 'layout': lay}
            try:
                got = np.array(drv(xv, vv[lay]), dtype=float)
            except Exception as ex:
                c.fail('C09|layout|%s|raises' % nm, case, {'error': str(ex)[:160]})
                continue
            c.check('layout', '%s|point is a %s view' % (nm, lay), got, ref, 1.0, case)
    # matrix-valued argument: g(X) = sum(X * W) + X[0,1] * X[1,0] * X[1,2]; seeds are laid out like X.ravel()
    W = np.arange(1.0, 7.0).reshape(2, 3)
    Xc = np.array([[2.0, -1.0, 0.5], [3.0, 1.5, -2.0]])

    def g(X):
        return algopy.sum(X * W) + X[0, 1] * X[1, 0] * X[1, 2]
    G = W.copy()
    G[0, 1] += Xc[1, 0] * Xc[1, 2]
    G[1, 0] += Xc[0, 1] * Xc[1, 2]
    G[1, 2] += Xc[0, 1] * Xc[1, 0]
    for lay, Xv in (('C', Xc.copy()), ('Fortran-ordered', np.asfortranarray(Xc)), ('transposed view', np.ascontiguousarray(Xc.T).T)):
        case = {'driver': 'jacobian', 'layout': lay, 'argument': 'matrix'}
        try:
            got = np.array(UTPM.extract_jacobian(g(UTPM.init_jacobian(Xv))), dtype=float)
        except Exception as ex:
            c.fail('C09|layout|matrix argument|raises', case, {'error': str(ex)[:160]})
            continue
        c.check('layout', 'matrix argument|%s' % ('contiguous' if lay == 'C' else 'non-contiguous'), got.reshape(-1), G.reshape(-1), 1.0, case)


def run_repeat(c):
    """extraction is a pure function of the propagated object: extracting twice gives the same answer and leaves it intact"""
    def f(x):
        return x[0] * x[1] * x[2] + x[0] ** 3 - 2.0 * x[1] * x[1] * x[2]
    x = np.array([2.0, -1.0, 3.0])
    v = np.array([1.0, 2.0, -1.0])
    N = 3
    cases = [('jacobian', UTPM.init_jacobian(x), lambda y: UTPM.extract_jacobian(y)),
             ('jac_vec', UTPM.init_jac_vec(x, v), lambda y: UTPM.extract_jac_vec(y)),
             ('hessian', UTPM.init_hessian(x), lambda y: UTPM.extract_hessian(N, y)),
             ('hess_vec', UTPM.init_hess_vec(x, v), lambda y: UTPM.extract_hess_vec(N, y)),
             ('tensor', UTPM.init_tensor(2, x), lambda y: UTPM.extract_tensor(N, y)),
             ('tensor_vec', UTPM.init_tensor(3, x), lambda y: UTPM.extract_tensor(N, y, as_full_matrix=False))]
    for nm, X, ext in cases:
        y = f(X)
        snap = y.data.copy()
        try:
            r1 = np.array(ext(y), copy=True)
            keep = ext(y)
            r2 = np.array(keep, copy=True)
            r3 = np.array(ext(y), copy=True)
        except Exception as ex:
            c.fail('C09|repeat|%s|raises' % nm, {'driver': nm}, {'error': str(ex)[:160]})
            continue
        c.out['evals'] += 1
        c.out['nontrivial'] += 1
        if not np.array_equal(y.data, snap):
            c.fail('C09|repeat|%s|extraction modified the propagated object' % nm, {'driver': nm}, {})
        elif not (np.array_equal(r1, r2) and np.array_equal(r1, r3) and np.array_equal(np.asarray(keep), r1)):
            c.fail('C09|repeat|%s|second extraction differs' % nm, {'driver': nm}, {'first': r1.ravel()[:4].tolist(), 'second': r2.ravel()[:4].tolist()})


def run_unit(u):
    c = Ctx(u)
    if u['kind'] == 'dtype':
        run_dtype(c)
        return c.out
    if u['kind'] == 'repeat':
        run_repeat(c)
        return c.out
    if u['kind'] == 'layout':
        run_layout(c)
        return c.out
    if u['kind'] == 'vecpoly':
        run_vecpoly(c, u['N'], u['driver'], u['tier'])
        return c.out
    if u['kind'] == 'mono':
        run_mono(c, u['N'], u['driver'], u['tier'], u.get('d'), u.get('form'))
    else:
        run_smooth(c, u['progs'], u['seed'])
    return c.out


def replay(case):
    u = dict((k, v) for k, v in case.items() if k in ('kind', 'N', 'driver', 'tier', 'seed', 'progs'))
    if case.get('driver') == 'tensor':
        u['d'] = case.get('d')
        u['form'] = case.get('form')
    if u.get('kind') == 'smooth':
        u['progs'] = [case['prog']]
    return run_unit(u)['fails']
