"""C05  Replaying a recorded graph reproduces the program.

For every enumerated program and every recording kind (plain ndarray, UTPM (1,1), UTPM (2,2)):
 (a) while recording, every register value computed through tracer nodes equals (bit-wise) the value
     the interpreter computes on the unwrapped operands;
 (b) the state graph of the recorded CGraph under the events replay(input_i), input menu = {ndarray a,
     ndarray b, UTPM(1,1), UTPM(2,2) with different base points, UTPM(3,1)} - any kind after any kind - is
     explored breadth-first with state hashing; after every replay the dependent value must equal what
     running the instruction list directly on that input yields;
 (c) structure: node.ID == position, every argument precedes its consumer, the recorded non-identity
     operations are exactly the operations the tracer executed (logged by wrapping Function.pushforward
     from the harness), constants appear as used identity nodes only, and executing the program again
     with recording switched off leaves the graph untouched.
"""
import hashlib

import numpy as np

from .. import env
from .. import programs as PR
from .. import explore as EX
from .. import adjoint as AD
import algopy
from algopy import UTPM, Function, CGraph

ID = 'C05'
RULE = ('programs = all type-correct instruction sequences up to the depth bound + scenarios, x recording kind; per '
        '(program, recording kind) the replay-history state graph over the input menu is explored breadth-first to the '
        'depth bound (usually closing earlier); evaluations = replays executed + recording checks; non-trivial = distinct '
        '(program, recording kind, state) triples; a replay is validated by comparison with direct execution')
ASSUMPTIONS = ['direct execution of the instruction list on ndarray / UTPM operands is the specification of "the program"',
               'comparison is rtol 1e-13 (bit-identical in practice; the count of non-bit-identical results is reported)']

DEPTH = {'quick': 2, 'thorough': 3}
REC_KINDS = ['nd', 'u11', 'u22', 'u11+pause', 'u11+interleave', 'nd+split', 'u22+split', 'u11+pause_other']
INPUTS = [('nd', 0), ('nd', 1), ('u11', 0), ('u22', 0), ('u31', 1)]
CHUNK = 30


def bounds(tier):
    return {'program_depth_full': 1 if tier == 'quick' else 2, 'program_depth_core': 2 if tier == 'quick' else 3,
            'history_depth': DEPTH[tier], 'recording_kinds': REC_KINDS, 'replay_inputs': INPUTS}


def make_input(kind, pt, seed):
    if kind == 'nd':
        return np.array(PR.POINTS[pt], dtype=float)
    D, P = {'u11': (1, 1), 'u22': (2, 2), 'u31': (3, 1)}[kind]
    return UTPM(PR.curve(seed + 3 * pt, D, P, pts=(pt, 1 - pt, 2)))


def plain(v):
    if isinstance(v, Function):
        v = v.x
    if isinstance(v, UTPM):
        return v.data
    if isinstance(v, tuple):
        return tuple(plain(i) for i in v)
    return v


def same(a, b, stats):
    a = plain(a)
    b = plain(b)
    if isinstance(a, tuple) or isinstance(b, tuple):
        if not (isinstance(a, tuple) and isinstance(b, tuple) and len(a) == len(b)):
            return False
        return all(same(x, y, stats) for x, y in zip(a, b))
    if a is None or b is None:
        return a is None and b is None
    a = np.asarray(a)
    b = np.asarray(b)
    if a.shape != b.shape or a.dtype == object or b.dtype == object:
        return False
    if a.dtype == b.dtype and a.tobytes() == b.tobytes():
        return True
    if np.array_equal(a, b, equal_nan=True):
        return True
    ok = bool(np.all(np.abs(a - b) <= 1e-13 * (1e-2 + np.abs(b))))
    if ok:
        stats['not_bit_identical'] = stats.get('not_bit_identical', 0) + 1
    return ok


class Log(object):
    """wrap Function.pushforward from the harness to log the operations the tracer executes"""
    def __enter__(self):
        self.calls = []
        self.orig = Function.__dict__['pushforward']
        orig_f = self.orig.__func__
        log = self.calls
        self_log = self
        self.only = None

        def wrapped(cls, func, Fargs, Fkwargs={}, Fout=None, setitem=None):
            if Fout is None and cls.cgraph is not None and (getattr(self_log, 'only', None) is None or cls.cgraph is self_log.only):
                log.append(getattr(func, '__name__', str(func)))
            return orig_f(cls, func, Fargs, Fkwargs, Fout, setitem) if Fkwargs else orig_f(cls, func, Fargs, Fout=Fout, setitem=setitem)
        Function.pushforward = classmethod(wrapped)
        return self

    def __exit__(self, *a):
        Function.pushforward = self.orig


_OTHER = {}


def other_graph():
    """a second graph, recorded and switched off BEFORE the graph under test is created"""
    Function.cgraph = None
    cg2, x2, y2 = PR.record(PR.SCENARIOS['view1'], np.array(PR.POINTS[2], dtype=float))
    return cg2


def pauser(cg, pause, probe, other=None):
    if other == 'pause_other':
        # recording is switched off through ANOTHER graph object (trace_off is a process-wide switch), an operation is
        # executed on a traced operand (must not be recorded anywhere) and recording of the graph under test is resumed
        if pause is None:
            return None
        side = CGraph()          # becomes the recording target for a moment ...
        Function.cgraph = cg     # ... and the graph under test is made the target again, as trace_on() does
        def before_o(k, regs):
            if k == pause:
                n = len(cg.functionList)
                side.trace_off()
                junk = probe * 3.0 + 1.0
                if len(cg.functionList) != n or len(side.functionList) != 0:
                    raise AssertionError('recorded-while-off')
                cg.trace_on()
        return before_o
    if other is not None:
        # recording mode 'interleave at k': while the graph under test is recording, a previously recorded (switched-off)
        # graph is re-evaluated and differentiated; recording of the graph under test must simply go on
        def before_i(k, regs):
            if k == pause:
                n = len(cg.functionList)
                other.function([np.array(PR.POINTS[1], dtype=float)])
                other.gradient(np.array(PR.POINTS[0], dtype=float))
                if len(cg.functionList) != n:
                    raise AssertionError('recorded-while-off')
                if Function.cgraph is not cg:
                    raise AssertionError('recording-target-changed')
        return before_i
    return pauser_plain(cg, pause, probe)


def pauser_plain(cg, pause, probe):
    """recording mode 'pause at k': before instruction k recording is switched off, an operation is executed on
    traced operands (it must not be recorded) and recording is resumed on the same graph"""
    if pause is None:
        return None

    def before(k, regs):
        if k == pause:
            n = len(cg.functionList)
            cg.trace_off()
            junk = probe * 3.0 + 1.0      # executed on a traced operand while recording is off
            cg.trace_on()
            if len(cg.functionList) != n:
                raise AssertionError('recorded-while-off')
    return before


def split_names(prog):
    used = sorted(set(r for ins in prog for r in ins[1] if r in PR.PRELUDE))
    spare = [r for r in ('V1', 'S1', 'M1', 'V0', 'S0', 'M0', 'T1', 'T0') if r not in used][0]
    return used + [spare]


def split_values(prog, x0):
    """every prelude register the program reads (plus one it does not) as an operand of its own, copied out of x0"""
    vals = []
    for r in split_names(prog):
        v = PR.PRELUDE[r](x0)
        vals.append(UTPM(v.data.copy()) if isinstance(v, UTPM) else np.array(v, dtype=float, copy=True))
    return vals


def split_direct(prog, x0):
    """direct execution with separate operands; returns the tuple of ALL distinct results (last first) + the spare input"""
    names = split_names(prog)
    vals = split_values(prog, x0)
    y, regs = PR.run(prog, PR.Split(dict(zip(names, vals))))
    return y, regs, dict(zip(names, vals))


def dep_keys(prog, regs):
    keys, objs = [], []
    for k in range(len(prog) - 1, -1, -1):
        f = regs['r%d' % k]
        if isinstance(f, Function) and not any(f is g for g in objs):
            keys.append('r%d' % k)
            objs.append(f)
    return keys, objs


def setup_split(prog, x0):
    names = split_names(prog)
    F = [Function(v) for v in split_values(prog, x0)]
    return names, F


def record_plain(prog, x0, pause=None, interleave=False, split=False):
    other = ('pause_other' if interleave == 'pause_other' else other_graph()) if interleave else None
    Function.cgraph = None
    cg = CGraph()
    if split:
        names, F = setup_split(prog, x0)
        y, regs = PR.run(prog, PR.Split(dict(zip(names, F))))
        cg.trace_off()
        keys, objs = dep_keys(prog, regs)
        cg.independentFunctionList = list(F)
        cg.dependentFunctionList = objs + [F[-1]]          # the untouched independent is returned as well
        cg.dep_keys = keys + [names[-1]]
        return cg, F, y
    x = Function(x0)
    y, regs = PR.run(prog, x, before=pauser(cg, pause, x, other))
    cg.trace_off()
    cg.independentFunctionList = [x]
    cg.dependentFunctionList = [y]
    return cg, x, y


def record_checked(prog, x0, stats, pause=None, interleave=False, split=False):
    """record with logging; returns (cg, x, y, failures[list of (kind, detail)])"""
    fails = []
    other = ('pause_other' if interleave == 'pause_other' else other_graph()) if interleave else None
    Function.cgraph = None
    with Log() as lg:
        cg = CGraph()
        lg.only = cg
        if split:
            names, F = setup_split(prog, x0)
            x = F[0]
            indep = list(F)
            y, regs = PR.run(prog, PR.Split(dict(zip(names, F))))
        else:
            x = Function(x0)
            indep = [x]
            y, regs = PR.run(prog, x, before=pauser(cg, pause, x, other))
        cg.trace_off()
    cg.independentFunctionList = indep
    cg.dependentFunctionList = [y]
    # (a) values while recording == direct execution on the unwrapped operand
    x0c = UTPM(x0.data.copy()) if isinstance(x0, UTPM) else np.array(x0, copy=True)
    if split:
        yd, regsd, _ = split_direct(prog, x0c)
    else:
        yd, regsd = PR.run(prog, x0c)
    for ref in regs:
        if not same(regs[ref], regsd.get(ref), stats):
            fails.append(('recording-value-differs', {'register': ref}))
            break
    # (c) structure
    fl = cg.functionList
    if cg.functionCount != len(fl) or any(getattr(f, 'ID', None) != i for i, f in enumerate(fl)):
        fails.append(('id-not-position', {}))
    used = set()
    for k, f in enumerate(fl):
        for a in f.args:
            if isinstance(a, Function) and a is not f:
                aid = getattr(a, 'ID', None)
                if aid is None or aid >= k or fl[aid] is not a:
                    fails.append(('argument-not-recorded-before-consumer', {'node': k}))
                else:
                    used.add(aid)
    names = [f.func.__name__ for f in fl if f.func != Function.Id]
    if names != lg.calls:
        fails.append(('recorded-ops-differ-from-executed-ops', {'recorded': names[:12], 'executed': lg.calls[:12]}))
    for k, f in enumerate(fl):
        if f.func == Function.Id:
            if isinstance(f.x, Function):
                fails.append(('constant-wrapped-twice', {'node': k}))
            if not any(f is g for g in indep) and k not in used:
                fails.append(('unused-identity-node', {'node': k}))
    if len(set(id(f) for f in fl)) != len(fl):
        fails.append(('node-recorded-twice', {}))
    # recording off: executing the program on the same traced operand must not touch the graph
    n0 = len(fl)
    ids0 = [id(f) for f in fl]
    try:
        PR.run(prog, PR.Split(dict(zip(names, F))) if split else x)
    except Exception:
        pass
    if len(cg.functionList) != n0 or [id(f) for f in cg.functionList] != ids0 or cg.functionCount != n0:
        fails.append(('recorded-while-off', {'before': n0, 'after': len(cg.functionList)}))
    Function.cgraph = None
    return cg, x, y, fails


def split_kind(reckind):
    """'u11' -> ('u11', None) ; 'u11+pause' -> ('u11', 'last')"""
    if reckind.endswith('+pause'):
        return reckind[:-6], 'last'
    if reckind.endswith('+interleave'):
        return reckind[:-11], 'interleave'
    if reckind.endswith('+split'):
        return reckind[:-6], 'split'
    if reckind.endswith('+pause_other'):
        return reckind[:-12], 'pause_other'
    return reckind, None


def pause_index(prog, pause):
    return None if pause in (None, 'split') else len(prog) - 1


class Sys(object):
    def __init__(self, prog, reckind, seed):
        rk, pause = split_kind(reckind)
        x0 = make_input(rk, 3, seed)
        self.prog = prog
        self.split = (pause == 'split')
        self.cg, self.x, self.y = record_plain(prog, x0, pause_index(prog, pause), interleave=('pause_other' if pause == 'pause_other' else pause == 'interleave'), split=self.split)


def state_key(sys_):
    h = hashlib.sha256()
    bases = {}
    for f in sys_.cg.functionList:
        v = f.x
        items = v if isinstance(v, tuple) else (v,)
        for it in items:
            EX.array_key(h, it.data if isinstance(it, UTPM) else it, bases)
    h.update(repr(Function.cgraph is None).encode())
    return h.hexdigest()


def complex_replay(prog, build, seed, stats, res):
    """one replay with COMPLEX data of the same shape (ndarray and Taylor polynomial): outside the state graph (history depth 1)"""
    for ckind in ('cnd', 'c21'):
        xr = make_input('nd' if ckind == 'cnd' else 'u22', 1, seed)
        if ckind == 'cnd':
            xin = xr + 1j * np.array(PR.POINTS[2], dtype=float) * 0.25
        else:
            xin = UTPM(xr.data[:, :1] + 1j * 0.25 * make_input('u22', 0, seed + 1).data[:, :1])
        try:
            ref, _ = PR.run(prog, UTPM(xin.data.copy()) if isinstance(xin, UTPM) else xin.copy())
        except Exception:
            continue
        pr = plain(ref)
        if isinstance(pr, tuple) or pr is None or not np.all(np.isfinite(np.asarray(pr))):
            continue
        try:
            s = build()
            obs = s.cg.function([UTPM(xin.data.copy()) if isinstance(xin, UTPM) else xin.copy()])[0]
        except Exception as e:
            Function.cgraph = None
            res.violations.append(([], (ckind, 1), {'kind': 'replay-raises', 'error': AD.last_line(e)}))
            continue
        res.transitions += 1
        if not same(obs, ref, stats):
            res.violations.append(([], (ckind, 1), {'kind': 'replay-differs-from-program', 'got': 'complex replay', 'expected': 'direct execution on the same complex data'}))
    Function.cgraph = None


def explore_program(prog, reckind, tier, seed, only_history=None):
    stats = {}
    why = PR.in_domain(prog, PR.POINTS[:4])
    if why is not None:
        return None, {'skip': 'out_of_domain'}, stats
    rk, pause = split_kind(reckind)
    x0 = make_input(rk, 3, seed)
    try:
        y_direct, _ = PR.run(prog, UTPM(x0.data.copy()) if isinstance(x0, UTPM) else x0.copy())
    except Exception:
        return None, {'skip': 'forward_unsupported'}, stats
    split = (pause == 'split')
    try:
        cg, x, y, rfails = record_checked(prog, x0, stats, pause_index(prog, pause), interleave=('pause_other' if pause == 'pause_other' else pause == 'interleave'), split=split)
    except AssertionError as e:
        Function.cgraph = None
        if 'recorded-while-off' in str(e) or 'recording-target-changed' in str(e):
            rfails = [(str(e), {'where': 'between instructions'})]
            res = EX.Result()
            return res, {'rfails': rfails}, stats
        return None, {'skip': 'untraceable'}, stats
    except Exception as e:
        Function.cgraph = None
        return None, {'skip': 'untraceable'}, stats
    refs = {}
    usable = []
    dkeys = build_keys = None
    if split:
        try:
            build_keys = Sys(prog, reckind, seed).cg.dep_keys
        except Exception:
            Function.cgraph = None
            return None, {'skip': 'untraceable'}, stats
        Function.cgraph = None
    for inp in INPUTS:
        try:
            if split:
                yv, rv, iv = split_direct(prog, make_input(inp[0], inp[1], seed))
                refs[inp] = tuple(rv[k] if k in rv else iv[k] for k in build_keys)
            else:
                v, _ = PR.run(prog, make_input(inp[0], inp[1], seed))
                refs[inp] = v
            usable.append(inp)
        except Exception:
            pass

    def build():
        return Sys(prog, reckind, seed)

    def enabled(s, hist):
        return usable

    def step(s, ev):
        if s.split:
            return tuple(s.cg.function(split_values(prog, make_input(ev[0], ev[1], seed))))
        return s.cg.function([make_input(ev[0], ev[1], seed)])[0]

    def check(hist, ev, obs, exc, s):
        if exc is not None:
            return {'kind': 'replay-raises', 'error': AD.last_line(exc)}
        if not same(obs, refs[tuple(ev)], stats):
            o = plain(obs)
            r = plain(refs[tuple(ev)])
            return {'kind': 'replay-differs-from-program',
                    'got': (np.asarray(o).ravel()[:5].tolist() if not isinstance(o, tuple) else 'tuple'),
                    'expected': (np.asarray(r).ravel()[:5].tolist() if not isinstance(r, tuple) else 'tuple')}
        return None

    if only_history is not None and only_history and tuple(only_history[-1])[0] in ('cnd', 'c21'):
        res = EX.Result()
        complex_replay(prog, build, seed, stats, res)
        res.violations = [v for v in res.violations if v[1][0] == tuple(only_history[-1])[0]]
        return res, {'rfails': rfails}, stats
    if only_history is not None:
        res = EX.Result()
        s = build()
        hist = ()
        for ev in only_history:
            ev = tuple(ev)
            try:
                obs, exc = step(s, ev), None
            except Exception as e:
                obs, exc = None, e
            res.transitions += 1
            d = check(hist, ev, obs, exc, s)
            if d is not None:
                res.violations.append((list(hist), ev, d))
                break
            hist += (ev,)
        return res, {'rfails': rfails}, stats
    res = EX.bfs(build, enabled, step, state_key, DEPTH[tier], check)
    Function.cgraph = None
    if not split and len(res.violations) == 0:
        complex_replay(prog, build, seed, stats, res)
    return res, {'rfails': rfails}, stats


def enumerate_programs(tier):
    progs = [(p, 1) for p in PR.depth1(fancy=True)]
    core = set(n for n, t in PR.TEMPLATES.items() if 'core' in t.tags or 'fancy' in t.tags)
    d1_ok = [p for p in PR.depth1(fancy=True) if PR.in_domain(p, PR.POINTS[:1]) is None]
    d2 = []
    for p in d1_ok:
        if tier == 'quick' and p[0][0] not in core:
            continue
        d2 += PR.extend(p, names=core if tier == 'quick' else None, fancy=True)
    progs += [(q, 2) for q in d2]
    if tier == 'thorough':
        vb = set(n for n, t in PR.TEMPLATES.items() if t.tags & {'view', 'buf'})
        for q in d2:
            if all(i[0] in core for i in q) and any(i[0] in vb for i in q) and PR.in_domain(q, PR.POINTS[:1]) is None:
                progs += [(r, 3) for r in PR.extend(q, names=vb, use_older=True)]
    progs += [(p, 0) for p in PR.SCENARIOS.values()]
    return progs


def units(tier, seed):
    progs = enumerate_programs(tier)
    us = []
    vb = set(n for n, t in PR.TEMPLATES.items() if t.tags & {'view', 'buf'})
    for rk in REC_KINDS:
        sel = progs
        if tier == 'quick' and '+' in rk:
            # pause/resume and interleaved-graph recording modes: depth <= 1, scenarios, and depth-2 programs that start
            # with a view or buffer instruction (full program set in the thorough tier)
            sel = [(p, d) for (p, d) in progs if d <= 1 or p[0][0] in vb]
        for i in range(0, len(sel), CHUNK):
            us.append({'progs': sel[i:i + CHUNK], 'reckind': rk, 'tier': tier, 'seed': seed})
    return us


def run_unit(unit):
    out = {'evals': 0, 'nontrivial': 0, 'counters': {}, 'fails': [], 'samples': [], 'states': 0, 'transitions': 0, 'traces': 0}
    closed_all, any_ = True, False
    for prog, depth in unit['progs']:
        res, info, stats = explore_program(prog, unit['reckind'], unit['tier'], unit['seed'])
        for k, v in stats.items():
            out['counters'][k] = out['counters'].get(k, 0) + v
        if res is None:
            k = 'skipped_' + info['skip']
            out['counters'][k] = out['counters'].get(k, 0) + 1
            continue
        any_ = True
        out['evals'] += res.transitions + 1
        out['states'] += res.states
        out['transitions'] += res.transitions
        out['traces'] += res.transitions - len(res.violations)
        out['nontrivial'] += res.states
        out['counters']['programs_depth_%d' % depth] = out['counters'].get('programs_depth_%d' % depth, 0) + 1
        ck = 'state_graphs_closed' if res.closed else 'state_graphs_open_at_bound'
        out['counters'][ck] = out['counters'].get(ck, 0) + 1
        closed_all = closed_all and res.closed
        if not out['samples'] and res.sample:
            out['samples'] = [{'program': PR.prog_str(prog), 'recorded_as': unit['reckind'],
                               'history': [list(e) for e in res.sample], 'states': res.states, 'closed': res.closed}]
        base = {'prog': prog, 'reckind': unit['reckind'], 'tier': unit['tier'], 'seed': unit['seed']}
        for kind, detail in info['rfails']:
            out['fails'].append({'sig': 'C05|%s|prog=%s|rec=%s' % (kind, PR.prog_str(prog), unit['reckind']),
                                 'case': dict(base, history=[]), 'detail': dict(detail, kind=kind),
                                 'attribs': ['instr:%s|%s' % (i[0], kind) for i in prog]})
        seen = set()
        for hist, ev, d in res.violations:
            sig = 'C05|%s|prog=%s|rec=%s|replay=%s|prev=%s' % (d['kind'], PR.prog_str(prog), unit['reckind'], ev[0],
                                                               hist[-1][0] if hist else 'none')
            if sig in seen:
                continue
            seen.add(sig)
            out['fails'].append({'sig': sig, 'case': dict(base, history=[list(e) for e in hist] + [list(ev)]), 'detail': d,
                                 'attribs': ['instr:%s|%s' % (i[0], d['kind']) for i in prog]})
    if any_:
        out['closed'] = closed_all
    return out


def replay(case):
    res, info, stats = explore_program(case['prog'], case['reckind'], case.get('tier', 'quick'), case.get('seed', 0),
                                       only_history=case['history'])
    if res is None:
        return []
    out = [{'sig': 'C05|' + k, 'detail': d} for k, d in info['rfails']] if not case['history'] else []
    out += [{'sig': 'C05|' + d['kind'], 'detail': d} for (h, e, d) in res.violations]
    return out
