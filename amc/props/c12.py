"""C12  Low-order coefficients do not depend on the truncation degree.

Forward: every catalogue entry x D in 2..Dmax x EVERY D' < D: f(x truncated to D').data == f(x).data[:D'] ; D' = 1
must reproduce the plain NumPy value of the reference function.  Inputs are built with an x_0 = 0 family as well
(functions that are smooth at 0 and whose implementation treats x_0 = 0 specially: abs, pow, sign).
Every enumerated program on a (D,P) curve vs its truncations, forward and reverse (inputs AND seeds truncated).
For eigh with eigenvalues repeated at order 0 only eigenvalues are compared (eigenvectors inside a cluster that
splits at order s > D' are not determined by the truncated input).
Each call is also followed by a check that the (shared-memory) truncated view did not modify the full input.
Oracle: metamorphic; tolerance 1e-12 x scale (bit-identical on the current tree).
"""
import numpy as np

from .. import env
from .. import catalogue as CAT
from .. import programs as PR
from .. import adjoint as AD
import algopy
from algopy import UTPM, Function

ID = 'C12'
RULE = ('cases = (catalogue entry | program, D, D\' < D, forward | reverse); each compares the truncated run with the low-order '
        'part of the full run; non-trivial = D\' >= 2 or reverse mode; distinct = distinct tuples')
ASSUMPTIONS = ['metamorphic oracle: no independent reference needed; both runs execute the code under test']
TOL = 1e-12
DMAX = {'quick': 5, 'thorough': 8}
P = 2
CHUNK_E = 8
CHUNK_P = 60


def bounds(tier):
    return {'Dmax': DMAX[tier], 'P': P, 'program_depth_full': 1, 'program_depth_core': 2}


def programs(tier):
    core = set(n for n, t in PR.TEMPLATES.items() if 'core' in t.tags)
    progs = [(p, 1) for p in PR.depth1()]
    for p in PR.depth1():
        if PR.in_domain(p, PR.POINTS[:1]) is None and (tier == 'thorough' or p[0][0] in core):
            progs += [(q, 2) for q in PR.extend(p, names=core if tier == 'quick' else None)]
    progs += [(p, 0) for p in PR.SCENARIOS.values()]
    return progs


def units(tier, seed):
    us = []
    names = [e.name for e in CAT.ENTRIES]
    for i in range(0, len(names), CHUNK_E):
        us.append({'kind': 'entries', 'names': names[i:i + CHUNK_E], 'tier': tier, 'seed': seed})
    us.append({'kind': 'zero', 'tier': tier, 'seed': seed})
    us.append({'kind': 'cmp', 'tier': tier, 'seed': seed})
    us.append({'kind': 'select', 'tier': tier, 'seed': seed})
    us.append({'kind': 'drivers', 'tier': tier, 'seed': seed})
    us.append({'kind': 'high', 'tier': tier, 'seed': seed})
    progs = programs(tier)
    for i in range(0, len(progs), CHUNK_P):
        us.append({'kind': 'programs', 'progs': progs[i:i + CHUNK_P], 'tier': tier, 'seed': seed})
    return us


def cmp_low(full, trunc, Dp):
    a = np.asarray(full)[:Dp]
    b = np.asarray(trunc)
    if a.shape != b.shape:
        return 'shape %s vs %s' % (a.shape, b.shape), 0.0
    if a.tobytes() == b.tobytes():
        return None, 0.0
    sc = 1.0 + (np.max(np.abs(b)) if b.size else 0.0)
    err = np.abs(a - b) / sc
    if not np.all(err <= TOL):
        bad = np.argwhere(~(err <= TOL))[0]
        return 'value at order %d (max scaled difference %.3g)' % (int(bad[0]), float(np.nanmax(err))), float(np.nanmax(err))
    return None, float(np.nanmax(err))


def check_call(name, fn, args, D, out, case, ref=None, atol=0.0, sigprefix='C12|'):
    """args: list of UTPM (degree D) / constants"""
    try:
        full = CAT.outputs(fn(*[UTPM(a.data.copy()) if isinstance(a, UTPM) else a for a in args]))
    except Exception as ex:
        out['counters']['raises (reported by C10)'] = out['counters'].get('raises (reported by C10)', 0) + 1
        return
    for Dp in range(1, D):
        out['evals'] += 1
        out['keys'].append('%s|%d|%d' % (name, D, Dp))
        keep = [a.data.copy() if isinstance(a, UTPM) else None for a in args]
        targs = [UTPM(a.data[:Dp]) if isinstance(a, UTPM) else a for a in args]       # views sharing memory with the full input
        try:
            tr = CAT.outputs(fn(*targs))
        except Exception as ex:
            out['fails'].append({'sig': '%s%s|truncated run raises' % (sigprefix, name), 'case': dict(case, Dp=Dp), 'detail': {'error': str(ex)[:200]}})
            return
        for a, k in zip(args, keep):
            if k is not None and not np.array_equal(a.data, k, equal_nan=True):
                out['fails'].append({'sig': '%s%s|input modified through truncated view' % (sigprefix, name), 'case': dict(case, Dp=Dp), 'detail': {}})
                return
        for k, (o, t) in enumerate(zip(full, tr)):
            if not isinstance(o, UTPM):
                continue
            why, w = cmp_low(o.data, t.data, Dp)
            out['maxima']['scaled_difference'] = max(out['maxima'].get('scaled_difference', 0.0), w)
            if why:
                out['fails'].append({'sig': '%s%s|forward|D\'%s' % (sigprefix, name, '=1' if Dp == 1 else '>1'), 'case': dict(case, Dp=Dp),
                                     'detail': {'output': k, 'why': why, 'D': D, 'Dp': Dp}})
                return


def check_entry(e, D, seed, out):
    if D > e.maxD:
        return
    for variant in CAT.variants_for(e, D, nonfinite=True):
        args = CAT.make_args(e, D, P, seed, variant)
        nm = e.name if variant == 'dense' else '%s{%s}' % (e.name, variant)
        check_call(nm, e.fn, args, D, out, {'kind': 'entry', 'name': e.name, 'D': D, 'seed': seed, 'variant': variant})


ZERO_FUNCS = [('absolute', algopy.absolute), ('abs()', abs), ('sign', algopy.sign), ('square', algopy.square), ('sin', algopy.sin), ('exp', algopy.exp),
              ('pow2', lambda x: x ** 2), ('pow3', lambda x: x ** 3), ('pow(2.0)', lambda x: x ** 2.0), ('tan', algopy.tan), ('arctan', algopy.arctan),
              ('expm1', algopy.expm1), ('log1p', algopy.log1p), ('erf', algopy.special.erf), ('dawsn', algopy.special.dawsn), ('tanh', algopy.tanh),
              ('mul', lambda x: x * x[::-1]), ('prod', algopy.prod), ('psi(x+1)', lambda x: algopy.special.psi(x + 1.0)),
              ('gammaln(x+2)', lambda x: algopy.special.gammaln(x + 2.0)), ('hyperu', lambda x: algopy.special.hyperu(1.5, 0.5, x + 1.0))]


def run_zero(u, out):
    """x_0 = 0 in some elements (functions smooth there), all sign patterns of the next two coefficients"""
    import itertools
    for D in range(2, DMAX[u['tier']] + 1):
        pats = list(itertools.product((-1.0, 0.0, 1.0, 0.5), repeat=min(D - 1, 3)))
        X = np.zeros((D, 1, len(pats)))
        for k, pat in enumerate(pats):
            X[1:1 + len(pat), 0, k] = pat
            if D - 1 > len(pat):
                X[1 + len(pat):, 0, k] = [(-1.0) ** (k + j) * 0.25 * (j + 1) for j in range(D - 1 - len(pat))]
        for nm, f in ZERO_FUNCS:
            check_call('x0=0:' + nm, f, [UTPM(X.copy())], D, out, {'kind': 'zero', 'name': nm, 'D': D})


HIGH_D = {'quick': [16, 17, 33], 'thorough': [16, 17, 24, 33, 40]}
HIGH_ENTRIES = ['mul(U[3],U[3])', 'div(U[3],U[3])', 'mul(U[2, 3],U[3])', 'pow(U[3],3)', 'pow(U[3],2.5)', 'exp[3]', 'sin[3]', 'sqrt[3]', 'reciprocal[3]', 'square[3]',
                'dot(U[2, 3],U[3, 2])', 'inv[2]', 'solve(U[2,2],U[2,2])', 'cholesky[2]', 'qr[2,2]', 'prod[3]', 'imul(U[3],U[])']


def run_high(u, out):
    """degrees well above anything the test-suite uses (kernels may switch algorithm with D)"""
    for nm in HIGH_ENTRIES:
        e = CAT.BY_NAME.get(nm)
        if e is None:
            out['counters']['high_entry_missing'] = out['counters'].get('high_entry_missing', 0) + 1
            continue
        for D in HIGH_D[u['tier']]:
            args = CAT.make_args(e, D, 1, u['seed'])
            for a in args:
                if isinstance(a, UTPM):
                    a.data[1:] *= 0.25          # keep high-order coefficients of products moderate
            check_call(nm + '{D=%d}' % D, e.fn, args, D, out, {'kind': 'high', 'name': nm, 'D': D, 'seed': u['seed']})


def check_program(prog, depth, D, seed, out, modes=('forward', 'reverse')):
    if any('D1only' in PR.TEMPLATES[i[0]].tags for i in prog) and D > 1:
        return
    if PR.in_domain(prog, [PR.POINTS[p] for p in range(P)]) is not None:
        out['counters']['skipped_out_of_domain'] = out['counters'].get('skipped_out_of_domain', 0) + 1
        return
    ps = PR.prog_str(prog)
    xdata = PR.curve(seed, D, P)
    case = {'kind': 'program', 'prog': prog, 'depth': depth, 'D': D, 'seed': seed}
    try:
        y = AD.forward(prog, xdata)
        if not isinstance(y, UTPM):
            return
    except Exception:
        out['counters']['forward_unsupported'] = out['counters'].get('forward_unsupported', 0) + 1
        return
    attribs = lambda mode: ['instr:%s|%s' % (i[0], mode) for i in prog]
    if 'forward' in modes:
        for Dp in range(1, D):
            out['evals'] += 1
            out['keys'].append('%s|%d|%d|fwd' % (ps, D, Dp))
            try:
                yt = AD.forward(prog, xdata[:Dp])
            except Exception as ex:
                out['fails'].append({'sig': 'C12|prog=%s|forward truncated run raises' % ps, 'case': dict(case, Dp=Dp, mode='forward'), 'detail': {'error': str(ex)[:200]}, 'attribs': attribs('forward')})
                break
            why, w = cmp_low(y.data, yt.data, Dp)
            out['maxima']['scaled_difference'] = max(out['maxima'].get('scaled_difference', 0.0), w)
            if why:
                out['fails'].append({'sig': 'C12|prog=%s|forward' % ps, 'case': dict(case, Dp=Dp, mode='forward'), 'detail': {'why': why}, 'attribs': attribs('forward')})
                break
    if 'reverse' in modes:
        ybar = AD.dense(y.data.shape, seed, 6)
        try:
            xbar, _, _, _ = AD.reverse(prog, xdata, lambda shp, dt: ybar.copy())
        except AD.Outcome:
            out['counters']['reverse_unsupported_or_failing (C03)'] = out['counters'].get('reverse_unsupported_or_failing (C03)', 0) + 1
            return
        for Dp in range(1, D):
            out['evals'] += 1
            out['keys'].append('%s|%d|%d|rev' % (ps, D, Dp))
            try:
                xt, _, _, _ = AD.reverse(prog, xdata[:Dp], lambda shp, dt: ybar[:Dp].copy())
            except AD.Outcome as o:
                out['fails'].append({'sig': 'C12|prog=%s|reverse truncated run %s' % (ps, o.cls), 'case': dict(case, Dp=Dp, mode='reverse'), 'detail': {'msg': o.msg}, 'attribs': attribs('reverse')})
                break
            why, w = cmp_low(xbar, xt, Dp)
            out['maxima']['scaled_difference'] = max(out['maxima'].get('scaled_difference', 0.0), w)
            if why:
                out['fails'].append({'sig': 'C12|prog=%s|reverse' % ps, 'case': dict(case, Dp=Dp, mode='reverse'), 'detail': {'why': why}, 'attribs': attribs('reverse')})
                break


def check_program_nonfinite(prog, depth, D, seed, out):
    """the top coefficient (order D-1) of the input curve and of the adjoint seed holds inf / nan in single elements: every
    result and adjoint coefficient of lower order must equal the run on the truncated data, which never sees them"""
    if any('D1only' in PR.TEMPLATES[i[0]].tags for i in prog) and D > 1:
        return
    if PR.in_domain(prog, [PR.POINTS[p] for p in range(P)]) is not None:
        return
    ps = PR.prog_str(prog)
    xdata = PR.curve(seed, D, P)
    xdata[D - 1, 0, 0] = np.inf
    xdata[D - 1, P - 1, xdata.shape[2] - 1] = np.nan
    xdata[D - 1, 0, 5] = -np.inf
    case = {'kind': 'program', 'prog': prog, 'depth': depth, 'D': D, 'seed': seed, 'nonfinite': True}
    attribs = lambda mode: ['instr:%s|%s' % (i[0], mode) for i in prog]
    Dp = D - 1
    try:
        y = AD.forward(prog, xdata)
        yt = AD.forward(prog, xdata[:Dp])
        if not isinstance(y, UTPM):
            return
    except Exception:
        out['counters']['forward_unsupported'] = out['counters'].get('forward_unsupported', 0) + 1
        return
    out['evals'] += 1
    out['keys'].append('%s|%d|%d|fwd-nonfinite' % (ps, D, Dp))
    why, w = cmp_low(y.data, yt.data, Dp)
    if why:
        out['fails'].append({'sig': 'C12|prog=%s|forward|non-finite top coefficient' % ps, 'case': dict(case, Dp=Dp, mode='forward'), 'detail': {'why': why}, 'attribs': attribs('forward-nonfinite')})
        return
    ybar = AD.dense(y.data.shape, seed, 6)
    yflat = ybar.reshape(D, P, -1)
    yflat[D - 1, 0, 0] = np.inf
    yflat[D - 1, P - 1, yflat.shape[2] - 1] = np.nan
    try:
        xbar, _, _, _ = AD.reverse(prog, xdata, lambda shp, dt: ybar.copy())
        xt, _, _, _ = AD.reverse(prog, xdata[:Dp], lambda shp, dt: ybar[:Dp].copy())
    except AD.Outcome:
        out['counters']['reverse_unsupported_or_failing (C03)'] = out['counters'].get('reverse_unsupported_or_failing (C03)', 0) + 1
        return
    out['evals'] += 1
    out['keys'].append('%s|%d|%d|rev-nonfinite' % (ps, D, Dp))
    why, w = cmp_low(xbar, xt, Dp)
    if why:
        out['fails'].append({'sig': 'C12|prog=%s|reverse|non-finite top coefficient' % ps, 'case': dict(case, Dp=Dp, mode='reverse'), 'detail': {'why': why}, 'attribs': attribs('reverse-nonfinite')})


def run_cmp(u, out):
    """comparisons (they steer data-dependent branches): the outcome for D coefficients equals the outcome for the inputs
    truncated to D' = 1, ..., D-1, for same-shape and broadcasting operand pairs, with higher coefficients chosen so that
    they would decide the comparison the other way"""
    import operator
    import itertools
    ops = {'lt': operator.lt, 'le': operator.le, 'gt': operator.gt, 'ge': operator.ge, 'eq': operator.eq}
    for opn, op in ops.items():
        for sa, sb in [((2,), (2,)), ((2,), ()), ((), (2,)), ((2, 1), (1, 2)), ((3,), ()), ((), ())]:
            na, nb = int(np.prod(sa)) if sa else 1, int(np.prod(sb)) if sb else 1
            for pattern in itertools.product((-1, 0, 1), repeat=2):
                for (D, Pn) in [(2, 1), (3, 1), (3, 2)]:
                    X = np.zeros((D, Pn) + sa)
                    Y = np.zeros((D, Pn) + sb)
                    for p in range(Pn):
                        X[0, p] = (np.arange(na) * 0.75 - 0.5 + 0.25 * p).reshape(sa)
                        Y[0, p] = np.array([X[0, p].ravel()[k % na] - 0.5 * pattern[k % 2] for k in range(nb)]).reshape(sb)
                    X[1:] = -1e3 if opn in ('gt', 'ge') else 1e3
                    Y[1:] = 1e3 if opn in ('gt', 'ge') else -1e3
                    case = {'kind': 'cmp', 'op': opn, 'sa': list(sa), 'sb': list(sb), 'pattern': list(pattern), 'D': D, 'P': Pn}
                    try:
                        full = bool(op(UTPM(X.copy()), UTPM(Y.copy())))
                    except Exception:
                        out['counters']['raises (reported by C10)'] = out['counters'].get('raises (reported by C10)', 0) + 1
                        continue
                    for Dp in range(1, D):
                        out['evals'] += 1
                        out['keys'].append('cmp|%s|%s|%s|%s|%d|%d|%d' % (opn, sa, sb, pattern, D, Pn, Dp))
                        try:
                            tr = bool(op(UTPM(X[:Dp].copy()), UTPM(Y[:Dp].copy())))
                        except Exception as ex:
                            continue
                        if tr != full:
                            out['fails'].append({'sig': 'C12|cmp %s|%s|outcome depends on the number of coefficients' % (opn, 'same shape' if sa == sb else 'broadcast'),
                                                 'case': dict(case, Dp=Dp), 'detail': {'full': full, 'truncated': tr}})
                            break


def run_select(u, out):
    """selection by the zeroth coefficient (UTPM.max, minimum, maximum): which element is selected is decided at order 0, so
    it cannot depend on higher coefficients - not even on non-finite ones of the selected element"""
    for n in (2, 3):
        for k in range(n):
            for bad in (np.nan, np.inf, -np.inf):
                for D in (2, 3, 4):
                    for where in range(1, D):
                        X = np.zeros((D, 2, n))
                        X[0, 0] = np.arange(n) * 0.5
                        X[0, 0, k] = 5.0
                        X[0, 1] = X[0, 0][::-1]
                        X[1:] = 0.25
                        X[where, 0, k] = bad
                        funcs = [('UTPM.max', lambda a: UTPM.max(a)), ('maximum', lambda a: algopy.maximum(a, a[::-1] * 1.0)),
                                 ('minimum', lambda a: algopy.minimum(-a, -(a[::-1] * 1.0)))]
                        for nm, f in funcs:
                            case = {'kind': 'select', 'name': nm, 'n': n, 'k': k, 'bad': str(bad), 'D': D, 'where': where}
                            try:
                                full = f(UTPM(X.copy())).data
                            except Exception:
                                continue
                            for Dp in range(1, where + 1):
                                out['evals'] += 1
                                out['keys'].append('select|%s|%d|%d|%s|%d|%d|%d' % (nm, n, k, bad, D, where, Dp))
                                try:
                                    tr = f(UTPM(X[:Dp].copy())).data
                                except Exception:
                                    continue
                                why, w = cmp_low(full, tr, Dp)
                                if why:
                                    out['fails'].append({'sig': 'C12|%s|selection depends on a higher non-finite coefficient' % nm, 'case': dict(case, Dp=Dp),
                                                         'detail': {'why': why}})
                                    break


def run_drivers(u, out):
    """"asking for more coefficients never changes the derivatives already obtained": the seeded forward drivers read their
    answer from fixed low orders - a result that carries MORE coefficients (the same seed padded with further, vanishing or
    non-vanishing, input coefficients) must give the same answer"""
    def f(x):
        return algopy.sin(x[0] * x[1]) + x[2] * x[0] * x[0] + algopy.exp(x[1] - x[2])

    def F(x):
        y = algopy.zeros(2, dtype=x)
        y[0] = f(x)
        y[1] = x[0] * x[1] * x[2]
        return y
    x0 = np.array([0.5, -1.25, 0.75])
    v = np.array([1.0, -0.5, 2.0])
    N = 3
    seeds = [('jacobian', UTPM.init_jacobian(x0), lambda y: UTPM.extract_jacobian(y), F),
             ('jacobian (scalar)', UTPM.init_jacobian(x0), lambda y: UTPM.extract_jacobian(y), f),
             ('jac_vec', UTPM.init_jac_vec(x0, v), lambda y: UTPM.extract_jac_vec(y), F),
             ('hessian', UTPM.init_hessian(x0), lambda y: UTPM.extract_hessian(N, y), f),
             ('hess_vec', UTPM.init_hess_vec(x0, v), lambda y: UTPM.extract_hess_vec(N, y), f)]
    for nm, X, ext, fun in seeds:
        ref = np.array(ext(fun(UTPM(X.data.copy()))), dtype=float)
        D0 = X.data.shape[0]
        for extra in (1, 2):
            for fillv in (0.0, 0.375):
                data = np.concatenate([X.data, np.full((extra,) + X.data.shape[1:], fillv)])
                out['evals'] += 1
                out['keys'].append('driver|%s|+%d|%s' % (nm, extra, fillv))
                case = {'kind': 'drivers', 'name': nm, 'extra': extra, 'fill': fillv}
                try:
                    got = np.array(ext(fun(UTPM(data))), dtype=float)
                except Exception as ex:
                    out['fails'].append({'sig': 'C12|driver %s|raises with more coefficients' % nm, 'case': case, 'detail': {'error': str(ex)[:160]}})
                    continue
                if got.shape != ref.shape or not np.all(np.abs(got - ref) <= 1e-12 * (1 + np.abs(ref))):
                    out['fails'].append({'sig': 'C12|driver %s|answer changes when more coefficients are propagated' % nm, 'case': case,
                                         'detail': {'D_seed': D0, 'D': D0 + extra}})
    # expm at base points of larger norm: the approximation used must not depend on the number of coefficients
    rng = np.random.default_rng(9)
    for norm in (0.5, 2.0, 5.0, 9.0):
        A0 = np.array([[0.3, -0.8, 0.2], [0.5, 0.1, -0.6], [-0.4, 0.7, 0.25]])
        A0 = A0 * (norm / np.abs(A0).sum(axis=0).max())
        for D in (2, 3, 4):
            data = np.zeros((D, 1, 3, 3))
            data[0, 0] = A0
            data[1:] = np.round(rng.uniform(-1, 1, size=(D - 1, 1, 3, 3)) * 8) / 8.0
            args = [UTPM(data)]
            check_call('expm{norm=%s}' % norm, algopy.expm, args, D, out, {'kind': 'drivers', 'name': 'expm', 'norm': norm, 'D': D})
            out['evals'] += 1
            e1 = algopy.expm(UTPM(data[:1].copy())).data[0, 0]
            e0 = algopy.expm(A0.copy())
            if not np.all(np.abs(e1 - e0) <= 1e-12 * (1 + np.abs(e0))):
                out['fails'].append({'sig': 'C12|expm|D=1 differs from the plain-array value', 'case': {'kind': 'drivers', 'name': 'expm', 'norm': norm}, 'detail': {}})


def check_direct_pullbacks(prog, seed, out):
    """every recorded node's pullback function called directly at D = 4 and on the data truncated to D' = 1, 2, 3 (arguments,
    results and seeds truncated alike): the adjoint coefficients of order < D' agree.  This sees errors that a surrounding
    program would project away (e.g. an antisymmetric error in the adjoint of a symmetric argument)"""
    D = 4
    if PR.in_domain(prog, [PR.POINTS[p] for p in range(P)]) is not None:
        return
    Function.cgraph = None
    try:
        cg, x, y = PR.record(prog, UTPM(PR.curve(seed, D, P)))
    except Exception:
        Function.cgraph = None
        return
    Function.cgraph = None
    ps = PR.prog_str(prog)

    def trunc(v, Dp):
        return UTPM(v.data[:Dp].copy()) if isinstance(v, UTPM) else v
    for F in cg.functionList:
        nm = getattr(F.func, '__name__', '')
        if F.func == Function.Id or nm in ('__setitem__', 'setitem', '__getitem__', 'getitem') or nm.startswith('__i'):
            continue
        outs = F.x if isinstance(F.x, tuple) else (F.x,)
        pb = getattr(UTPM, 'pb_' + nm, None)
        if pb is None or not all(isinstance(o, UTPM) for o in outs):
            continue
        args = [a.x if isinstance(a, Function) else a for a in F.args]
        seeds = [UTPM(AD.dense(o.data.shape, seed, 80 + k)) for k, o in enumerate(outs)]

        def call(Dp):
            a2 = [trunc(a, Dp) for a in args]
            bars = [a.zeros_like() if isinstance(a, UTPM) else None for a in a2]
            kw = {'out': list(bars)}
            kw.update(F.kwargs)
            pb(*([trunc(sd, Dp) for sd in seeds] + a2 + [trunc(o, Dp) for o in outs]), **kw)
            return bars
        try:
            full = call(D)
        except Exception:
            continue
        for Dp in range(1, D):
            out['evals'] += 1
            out['keys'].append('%s|pb_%s|%d' % (ps, nm, Dp))
            try:
                tr = call(Dp)
            except Exception as ex:
                continue
            bad = None
            for k, (fb, tb) in enumerate(zip(full, tr)):
                if fb is None or tb is None:
                    continue
                why, w = cmp_low(fb.data, tb.data, Dp)
                if why:
                    bad = (k, why)
                    break
            if bad:
                out['fails'].append({'sig': "C12|direct pullback pb_%s|D'%s" % (nm, '=1' if Dp == 1 else ('=2' if Dp == 2 else '>2')),
                                     'case': {'kind': 'directpb', 'prog': prog, 'seed': seed, 'Dp': Dp}, 'detail': {'argument': bad[0], 'why': bad[1], 'program': ps}})
                break


def run_unit(u):
    out = {'evals': 0, 'keys': [], 'fails': [], 'samples': [], 'counters': {}, 'maxima': {}}
    if u['kind'] == 'entries':
        for nm in u['names']:
            for D in range(2, DMAX[u['tier']] + 1):
                check_entry(CAT.BY_NAME[nm], D, u['seed'], out)
        out['samples'] = [{'entry': u['names'][0], 'D': list(range(2, DMAX[u['tier']] + 1)), 'Dp': 'every D\' < D'}]
    elif u['kind'] == 'zero':
        run_zero(u, out)
    elif u['kind'] == 'cmp':
        run_cmp(u, out)
    elif u['kind'] == 'select':
        run_select(u, out)
    elif u['kind'] == 'drivers':
        run_drivers(u, out)
    elif u['kind'] == 'high':
        run_high(u, out)
    else:
        for prog, depth in u['progs']:
            for D in ([4] if u['tier'] == 'quick' else [3, 5]):
                check_program(prog, depth, D, u['seed'], out)
            for D in ([3] if u['tier'] == 'quick' else [2, 3, 4]):
                check_program_nonfinite(prog, depth, D, u['seed'], out)
            if depth <= 1:
                check_direct_pullbacks(prog, u['seed'], out)
        out['samples'] = [{'program': PR.prog_str(u['progs'][0][0]), 'modes': ['forward', 'reverse']}]
    return out


def replay(case):
    out = {'evals': 0, 'keys': [], 'fails': [], 'samples': [], 'counters': {}, 'maxima': {}}
    if case['kind'] == 'entry':
        check_entry(CAT.BY_NAME[case['name']], case['D'], case.get('seed', 0), out)
    elif case['kind'] == 'high':
        run_high({'tier': 'thorough', 'seed': case.get('seed', 0)}, out)
        out['fails'] = [f for f in out['fails'] if f['case']['name'] == case['name'] and f['case']['D'] == case['D']]
    elif case['kind'] == 'directpb':
        check_direct_pullbacks(case['prog'], case.get('seed', 0), out)
    elif case['kind'] == 'drivers':
        run_drivers({}, out)
        out['fails'] = [f for f in out['fails'] if f['case'].get('name') == case.get('name')]
    elif case['kind'] == 'select':
        run_select({}, out)
        out['fails'] = [f for f in out['fails'] if all(f['case'].get(k) == case.get(k) for k in ('name', 'n', 'k', 'bad', 'D', 'where'))]
    elif case['kind'] == 'cmp':
        run_cmp({}, out)
        out['fails'] = [f for f in out['fails'] if all(f['case'].get(k) == case.get(k) for k in ('op', 'sa', 'sb', 'pattern', 'D', 'P'))]
    elif case['kind'] == 'zero':
        run_zero({'tier': 'thorough'}, out)
        out['fails'] = [f for f in out['fails'] if f['case']['name'] == case['name'] and f['case']['D'] == case['D']]
    elif case.get('nonfinite'):
        check_program_nonfinite(case['prog'], case.get('depth', 1), case['D'], case.get('seed', 0), out)
    else:
        check_program(case['prog'], case.get('depth', 1), case['D'], case.get('seed', 0), out, modes=(case.get('mode', 'forward'),))
    return out['fails']
