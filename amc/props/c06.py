"""C06  Results are independent of call history.

For every program of the program set a graph is recorded once; the state graph of that live CGraph
under the event alphabet
   fwd(point, kind)   forward evaluation (kind: plain ndarray, UTPM (1,1), UTPM (2,2) with different
                      base points per direction, UTPM (3,1))
   rev(seed)          reverse sweep with a unit or a dense seed (enabled after a UTPM forward evaluation,
                      including the ones drivers perform internally)
   driver(name, pt)   gradient / jacobian / vec_jac / jac_vec / hess_vec / hessian
   other              record and differentiate a second, different graph and leave ITS recording switched on
   other_finish       (after 'other') the second graph records two more operations, is closed and differentiated
is explored breadth-first (amc/explore.py).  Oracle per transition: the value returned must equal the
value computed from the call's arguments alone - by running the program directly (fwd, jac_vec) or on a
freshly recorded single-use graph recorded at exactly the input of the call (rev, other drivers).
State invariant: a reverse sweep leaves every node's forward value bit-identical.
"""
import hashlib

import numpy as np

from .. import env
from .. import programs as PR
from .. import explore as EX
from .. import adjoint as AD
import algopy
from algopy import UTPM, Function, CGraph
from algopy.tracer.tracer import is_set

ID = 'C06'
RULE = ('for each program (all depth-1 templates + buffer/view scenarios, thorough: + depth-2 buffer/view programs) the '
        'state graph of its recorded CGraph under the event alphabet is explored breadth-first up to the depth bound with '
        'state hashing; evaluations = executed transitions; non-trivial = distinct (program, state) pairs reached; a '
        'transition is validated by comparing its return value with a history-free reference')
ASSUMPTIONS = ['a fresh single-use graph gives the right answer (C03/C04 check that)',
               'the state key covers all mutable state reachable from the graph (node values, adjoints, saved stores, '
               'aliasing structure, Function.cgraph)']

REC_POINT = 3
DEPTH = {'quick': 3, 'thorough': 4}
TOL = 1e-11


def bounds(tier):
    return {'history_depth': DEPTH[tier], 'events': [e for e in event_menu(True, tier)], 'record_kinds': rec_kinds(tier)}


def rec_kinds(tier):
    return ['u11'] if tier == 'quick' else ['u11', 'nd', 'u22']


def make_input(pt, kind, seed):
    """pt in {0,1}; kind in nd,u11,u22,u31"""
    if kind == 'nd':
        return np.array(PR.POINTS[pt], dtype=float)
    if kind == 'c11':        # complex coefficients, same (D,P) and shape as 'u11'
        d = PR.curve(seed + 5 * pt, 1, 1, pts=(pt, 1 - pt, 2)).astype(complex)
        d += 1j * 0.125 * np.arange(1, PR.NX + 1).reshape(1, 1, PR.NX) / PR.NX
        return UTPM(d)
    D, P = {'u11': (1, 1), 'u22': (2, 2), 'u31': (3, 1)}[kind]
    return UTPM(PR.curve(seed + 5 * pt, D, P, pts=(pt, 1 - pt, 2)))


def vec(n, which, seed):
    rng = np.random.default_rng(4242 + seed + which)
    return np.round(rng.uniform(-1, 1, size=n) * 8) / 8.0


def event_menu(scalar, tier):
    evs = []
    kinds = ['nd', 'u11', 'u22'] if tier == 'quick' else ['nd', 'u11', 'u22', 'u31']
    for pt in (0, 1):
        for k in kinds:
            evs.append(('fwd', pt, k))
    evs.append(('fwd', 1, 'c11'))
    evs += [('rev', 'unit'), ('rev', 'dense')]
    if scalar:
        evs += [('gradient', 0), ('gradient', 1), ('hess_vec', 0)]
        if tier == 'thorough':
            evs += [('hessian', 1)]
    else:
        evs += [('jacobian', 0), ('jacobian', 1)]
    # jacobian(UTPM) with one direction (same number of directions as jacobian(ndarray): shared state keyed on shapes shows)
    # and with two directions
    evs += [('vec_jac', 1), ('jac_vec', 0), ('other',), ('jacobian_utpm', 0, 2), ('jacobian_utpm', 0, 1), ('other_finish',)]
    return evs


class Sys(object):
    """the live object: a recorded graph plus what the last forward evaluation was"""
    def __init__(self, prog, reckind, seed):
        self.prog = prog
        self.seed = seed
        x0 = make_input(REC_POINT, reckind, seed) if reckind != 'nd' else np.array(PR.POINTS[REC_POINT], dtype=float)
        self.cg, self.x, self.y = PR.record(prog, x0)
        self.other = None
        self.other_done = True
        self.held = []


def seed_of(kind, shape, seed):
    s = np.zeros(shape)
    if kind == 'unit':
        s[0] = 1.0
    else:
        s[...] = AD.dense(shape, seed, 99)
    return s


def cur_input(sys_):
    xx = sys_.x.x
    return xx if isinstance(xx, UTPM) else None


def out_size(sys_):
    y = sys_.y.x
    return int(np.prod(y.shape, dtype=int)) if hasattr(y, 'shape') else 1


def step(sys_, ev):
    raw = step_raw(sys_, ev)
    if isinstance(raw, np.ndarray):
        # results handed out earlier in this history must not change when later calls are made
        for k, (obj, snap) in enumerate(sys_.held):
            if obj.shape != snap.shape or not np.array_equal(obj, snap, equal_nan=True):
                raise HeldResultChanged('result returned by call %d changed after a later call' % k)
        sys_.held.append((raw, np.array(raw, copy=True)))
        return np.array(raw, copy=True)
    return raw


class HeldResultChanged(Exception):
    pass


def step_raw(sys_, ev):
    cg = sys_.cg
    seed = sys_.seed
    kind = ev[0]
    NX = PR.NX
    if kind == 'fwd':
        inp = make_input(ev[1], ev[2], seed)
        out = cg.function([inp])[0]
        return out.data if isinstance(out, UTPM) else np.asarray(out)
    if kind == 'rev':
        y = sys_.y.x
        ybar = UTPM(seed_of(ev[1], y.data.shape, seed))
        before = node_values_key(cg)
        cg.pullback([ybar])
        after = node_values_key(cg)
        return {'xbar': sys_.x.xbar.data.copy(), 'values_intact': before == after}
    pt = np.array(PR.POINTS[ev[1]], dtype=float) if len(ev) > 1 else None
    if kind == 'gradient':
        return np.asarray(cg.gradient(pt))
    if kind == 'jacobian':
        return np.asarray(cg.jacobian(pt))
    if kind == 'hessian':
        return np.asarray(cg.hessian(pt))
    if kind == 'hess_vec':
        return np.asarray(cg.hess_vec(pt, vec(NX, 1, seed)))
    if kind == 'vec_jac':
        return np.asarray(cg.vec_jac(vec(out_size(sys_), 2, seed), pt))
    if kind == 'jac_vec':
        return np.asarray(cg.jac_vec(pt, vec(NX, 3, seed)))
    if kind == 'jacobian_utpm':
        return cg.jacobian(UTPM(PR.curve(seed + 7, 2, ev[2] if len(ev) > 2 else 2, pts=(ev[1], 2, 1)))).data
    if kind == 'other':
        cg2, x2, y2 = PR.record(PR.SCENARIOS['view1'], np.array(PR.POINTS[2], dtype=float))
        g = cg2.gradient(np.array(PR.POINTS[1], dtype=float))
        cg2.trace_on()           # leave the OTHER graph recording
        sys_.other = (cg2, x2, y2)
        sys_.other_done = False
        return np.array(g, copy=True)
    if kind == 'other_finish':
        # the other graph, left recording by an earlier 'other' event, records two more operations, is closed and
        # differentiated: whatever was done with the graph under test in between must not have disturbed its recording
        return other_finish(*sys_.other, mark=sys_)
    raise ValueError(ev)


def other_finish(cg2, x2, y2, mark=None):
    y3 = y2 * x2[0] + algopy.sum(x2 * x2)
    cg2.trace_off()
    cg2.dependentFunctionList = [y3]
    if mark is not None:
        mark.other_done = True
    return np.array(cg2.gradient(np.array(PR.POINTS[1], dtype=float)), copy=True)


def fresh_rev(prog, xdata, ybar_data):
    cg, x, y = PR.record(prog, UTPM(np.array(xdata, copy=True)))
    cg.pullback([UTPM(np.array(ybar_data, copy=True))])
    return x.xbar.data.copy(), y.x.data.copy()


def reference(sys_before_input, prog, ev, seed, M):
    """history-free expected value of the event; sys_before_input = UTPM input of the last forward (for rev)"""
    kind = ev[0]
    NX = PR.NX
    if kind == 'fwd':
        inp = make_input(ev[1], ev[2], seed)
        out, _ = PR.run(prog, inp)
        return np.array(out.data if isinstance(out, UTPM) else out, copy=True)
    if kind == 'rev':
        xin = sys_before_input
        y, _ = PR.run(prog, UTPM(xin.copy()))
        xbar, _ = fresh_rev(prog, xin, seed_of(ev[1], y.data.shape, seed))
        return xbar
    pt = np.array(PR.POINTS[ev[1]], dtype=float) if len(ev) > 1 else None
    if kind == 'gradient':
        y, _ = PR.run(prog, UTPM(pt.reshape(1, 1, NX)))
        s = np.zeros(y.data.shape)
        s[0] = 1.0
        xbar, _ = fresh_rev(prog, pt.reshape(1, 1, NX), s)
        return xbar[0, 0]
    if kind == 'jacobian':
        xin = np.zeros((1, M, NX))
        xin[0] = pt
        y, _ = PR.run(prog, UTPM(xin.copy()))
        s = np.zeros((1, M, M))
        s[0] = np.eye(M)
        xbar, _ = fresh_rev(prog, xin, s.reshape(y.data.shape))
        return xbar[0, :]
    if kind == 'hessian':
        xin = UTPM.init_jacobian(pt).data
        y, _ = PR.run(prog, UTPM(xin.copy()))
        s = np.zeros(y.data.shape)
        s[0] = 1.0
        xbar, _ = fresh_rev(prog, xin, s)
        return xbar[1, :]
    if kind == 'hess_vec':
        xin = np.zeros((2, 1, NX))
        xin[0, 0] = pt
        xin[1, 0] = vec(NX, 1, seed)
        y, _ = PR.run(prog, UTPM(xin.copy()))
        s = np.zeros(y.data.shape)
        s[0] = 1.0
        xbar, _ = fresh_rev(prog, xin, s)
        return xbar[1, 0]
    if kind == 'vec_jac':
        xin = pt.reshape(1, 1, NX)
        y, _ = PR.run(prog, UTPM(xin.copy()))
        s = np.zeros((1, 1, M))
        s[0, 0] = vec(M, 2, seed)
        xbar, _ = fresh_rev(prog, xin, s.reshape(y.data.shape))
        return xbar[0, 0]
    if kind == 'jacobian_utpm':
        Function.cgraph = None
        # one fresh single-use graph per direction (P = 1 each): the reference does not use the P > 1 code path
        xc = PR.curve(seed + 7, 2, ev[2] if len(ev) > 2 else 2, pts=(ev[1], 2, 1))
        parts = []
        for p in range(xc.shape[1]):
            Function.cgraph = None
            cgf, xf, yf = PR.record(prog, np.array(PR.POINTS[REC_POINT], dtype=float))
            parts.append(cgf.jacobian(UTPM(xc[:, p:p + 1].copy())).data.copy())
        Function.cgraph = None
        return np.concatenate(parts, axis=1)
    if kind == 'jac_vec':
        xin = np.zeros((2, 1, NX))
        xin[0, 0] = pt
        xin[1, 0] = vec(NX, 3, seed)
        y, _ = PR.run(prog, UTPM(xin))
        return y.data[1, 0]
    if kind == 'other':
        cg2, x2, y2 = PR.record(PR.SCENARIOS['view1'], np.array(PR.POINTS[2], dtype=float))
        g = cg2.gradient(np.array(PR.POINTS[1], dtype=float))
        Function.cgraph = None
        return np.array(g, copy=True)
    if kind == 'other_finish':
        Function.cgraph = None
        cg2, x2, y2 = PR.record(PR.SCENARIOS['view1'], np.array(PR.POINTS[2], dtype=float))
        cg2.gradient(np.array(PR.POINTS[1], dtype=float))
        cg2.trace_on()
        g = other_finish(cg2, x2, y2)
        Function.cgraph = None
        return g
    raise ValueError(ev)


def _feed(h, v, bases):
    items = v if isinstance(v, tuple) else (v,)
    for it in items:
        a = it.data if isinstance(it, UTPM) else it
        EX.array_key(h, a, bases)


def node_values_key(cg):
    h = hashlib.sha256()
    bases = {}
    for f in cg.functionList:
        _feed(h, f.x, bases)
    return h.hexdigest()


def state_key(sys_):
    cg = sys_.cg
    h = hashlib.sha256()
    bases = {}
    for f in cg.functionList:
        _feed(h, f.x, bases)
        _feed(h, f.xbar if is_set(f.xbar) else None, bases)
        if is_set(f.setitem):
            h.update(repr(f.setitem[0]).encode())
            _feed(h, f.setitem[1], bases)
        else:
            h.update(b'-')
    g = Function.cgraph
    h.update(b'cg:none' if g is None else (b'cg:self' if g is cg else b'cg:other'))
    h.update(repr((cg.functionCount, len(cg.functionList))).encode())
    h.update(repr((sys_.other_done, None if sys_.other is None else len(sys_.other[0].functionList))).encode())
    return h.hexdigest()


def close(a, b):
    a = np.asarray(a)
    b = np.asarray(b)
    if a.shape != b.shape:
        return False
    if a.dtype == object or b.dtype == object:
        return False
    if np.iscomplexobj(a) != np.iscomplexobj(b):
        return False
    return bool(np.all(np.abs(a - b) <= TOL * (1.0 + np.abs(b))))


def explore_program(prog, reckind, tier, seed, depth=None, only_history=None):
    """returns (EX.Result, info) ; info has skip reason if the program cannot be used"""
    why = PR.in_domain(prog, PR.POINTS[:4])
    if why is not None:
        return None, {'skip': 'out_of_domain'}
    Function.cgraph = None
    try:
        probe = Sys(prog, reckind, seed)
    except Exception as e:
        Function.cgraph = None
        return None, {'skip': 'untraceable'}
    yx = probe.y.x if isinstance(probe.y, Function) else None
    if not isinstance(yx, (UTPM, np.ndarray, float, np.floating)):
        return None, {'skip': 'non-array output'}
    oshape = yx.shape if hasattr(yx, 'shape') else ()
    scalar = (tuple(oshape) == ())
    M = int(np.prod(oshape, dtype=int))
    menu = event_menu(scalar, tier)
    if len(tuple(oshape)) > 1:      # the Jacobian drivers are defined for F: R^N -> R^M with a 1-D (or 0-D) result
        menu = [e for e in menu if e[0] not in ('jacobian', 'vec_jac', 'jacobian_utpm')]
    # events whose history-free reference itself raises (unsupported pullback, ...) are not part of the alphabet
    usable = []
    refcache = {}
    for ev in menu:
        try:
            if ev[0] == 'rev':
                xin = make_input(0, 'u11', seed).data
                reference(xin, prog, ev, seed, M)
            else:
                refcache[(ev, None)] = reference(None, prog, ev, seed, M)
            usable.append(ev)
        except Exception:
            Function.cgraph = None
    Function.cgraph = None

    def build():
        Function.cgraph = None
        return Sys(prog, reckind, seed)

    def enabled(sys_, hist):
        out = []
        for ev in usable:
            if ev[0] == 'rev' and cur_input(sys_) is None:
                continue
            if ev[0] == 'other_finish' and sys_.other_done:
                continue
            out.append(ev)
        return out

    holder = {}

    def step_(sys_, ev):
        ci = cur_input(sys_)
        holder['cur'] = None if ci is None else ci.data.copy()
        return step(sys_, ev)

    def check(hist, ev, obs, exc, sys_):
        g = Function.cgraph
        try:
            return check_(hist, ev, obs, exc, sys_)
        finally:
            Function.cgraph = g       # computing references records fresh graphs; restore the global

    def check_(hist, ev, obs, exc, sys_):
        if isinstance(exc, HeldResultChanged):
            return {'kind': 'earlier-result-overwritten', 'error': str(exc)}
        if exc is not None:
            # an exception is a matter of history only if the same call succeeds on a fresh single-use graph
            try:
                if ev[0] == 'rev':
                    reference(holder['cur'], prog, ev, seed, M)
                else:
                    reference(None, prog, ev, seed, M)
            except Exception:
                return None
            return {'kind': 'exception-after-history', 'error': AD.last_line(exc)}
        if ev[0] == 'rev':
            cur = holder['cur']
            k = (ev, hashlib.sha256(cur.tobytes() + repr(cur.shape).encode()).hexdigest())
            if k not in refcache:
                refcache[k] = reference(cur, prog, ev, seed, M)
            exp = refcache[k]
            if not close(obs['xbar'], exp):
                return {'kind': 'wrong-adjoint', 'got': np.asarray(obs['xbar']).ravel()[:6].tolist(),
                        'expected': np.asarray(exp).ravel()[:6].tolist()}
            if not obs['values_intact']:
                return {'kind': 'reverse-sweep-modified-forward-values'}
            return None
        exp = refcache[(ev, None)]
        if not close(obs, exp):
            return {'kind': 'wrong-value', 'got': np.asarray(obs).ravel()[:6].tolist(),
                    'expected': np.asarray(exp).ravel()[:6].tolist()}
        return None

    if only_history is not None:
        # replay mode: run exactly this history, checking every step
        res = EX.Result()
        sys_ = build()
        hist = ()
        for ev in only_history:
            ev = tuple(ev)
            try:
                obs = step_(sys_, ev)
                exc = None
            except Exception as e:
                obs, exc = None, e
            res.transitions += 1
            d = check(hist, ev, obs, exc, sys_)
            if d is not None:
                res.violations.append((list(hist), ev, d))
                break
            hist = hist + (ev,)
        Function.cgraph = None
        return res, {}
    res = EX.bfs(build, enabled, step_, state_key, depth or DEPTH[tier], check)
    Function.cgraph = None
    return res, {'events': len(usable)}


# ---------------------------------------------------------------- graphs with TWO independents of mixed kinds
def _p_xsiny(x, y):
    return algopy.sum(x * algopy.sin(y))


def _p_dotxy(x, y):
    return algopy.dot(x, y) * x[0] + algopy.sum(y * y)


def _p_buf(x, y):
    b = algopy.zeros(2, dtype=x * y)
    b[0] = x[0] * y[1]
    b[1] = b[0] * y[0]
    b[0] = algopy.sin(b[1]) + x[1]
    return b[0] * b[1]


PROGS2 = {'sum(x*sin(y))': _p_xsiny, 'dot(x,y)*x0+sum(y*y)': _p_dotxy, 'buffer(x,y)': _p_buf}
KINDS2 = [('nd', 'nd'), ('nd', 'u11'), ('u11', 'nd'), ('u11', 'u11'), ('nd', 'u21'), ('u21', 'nd'), ('u21', 'u21')]
PTS2 = {0: (np.array([0.5, 1.25]), np.array([0.75, -0.5])), 1: (np.array([1.5, 0.25]), np.array([-1.25, 0.625]))}


def input2(kind, base, salt):
    if kind == 'nd':
        return base.copy()
    D = {'u11': 1, 'u21': 2}[kind]
    d = np.zeros((D, 1, 2))
    d[0, 0] = base
    if D > 1:
        d[1, 0] = [0.5 - salt, 0.25 + salt]
    return UTPM(d)


class Sys2(object):
    def __init__(self, name):
        Function.cgraph = None
        self.f = PROGS2[name]
        self.cg = CGraph()
        self.x = Function(np.array([0.9, 1.1]))
        self.y = Function(np.array([0.3, 0.7]))
        self.out = self.f(self.x, self.y)
        self.cg.trace_off()
        self.cg.independentFunctionList = [self.x, self.y]
        self.cg.dependentFunctionList = [self.out]


def step2(s, ev):
    if ev[0] == 'fwd':
        xin = input2(ev[1], PTS2[ev[3]][0], 0.0)
        yin = input2(ev[2], PTS2[ev[3]][1], 0.125)
        r = s.cg.function([xin, yin])[0]
        return np.array(r.data if isinstance(r, UTPM) else r, copy=True)
    if ev[0] == 'rev':
        o = s.out.x
        ybar = UTPM(seed_of(ev[1], o.data.shape, 3))
        before = node_values_key(s.cg)
        s.cg.pullback([ybar])
        res = {}
        for nm, f in (('x', s.x), ('y', s.y)):
            if isinstance(f.x, UTPM):
                res[nm] = f.xbar.data.copy()
        res['values_intact'] = node_values_key(s.cg) == before
        return res
    if ev[0] == 'gradient':
        # the caller keeps ONE list of points per evaluation point and passes the same list object in every call
        if not hasattr(s, 'pts'):
            s.pts = {}
        pts = s.pts.setdefault(ev[1], [PTS2[ev[1]][0].copy(), PTS2[ev[1]][1].copy()])
        g = s.cg.gradient(pts)
        return [np.array(v, copy=True) for v in g]
    raise ValueError(ev)


def reference2(name, ev, cur):
    f = PROGS2[name]
    if ev[0] == 'fwd':
        r = f(input2(ev[1], PTS2[ev[3]][0], 0.0), input2(ev[2], PTS2[ev[3]][1], 0.125))
        return np.array(r.data if isinstance(r, UTPM) else r, copy=True)
    if ev[0] == 'rev':
        Function.cgraph = None
        cg = CGraph()
        xs = [Function(UTPM(c.copy()) if isinstance(c, np.ndarray) and c.ndim == 3 else c.copy()) for c in cur]
        o = f(*xs)
        cg.trace_off()
        cg.independentFunctionList = xs
        cg.dependentFunctionList = [o]
        cg.pullback([UTPM(seed_of(ev[1], o.x.data.shape, 3))])
        res = {}
        for nm, fx in zip(('x', 'y'), xs):
            if isinstance(fx.x, UTPM):
                res[nm] = fx.xbar.data.copy()
        return res
    if ev[0] == 'gradient':
        Function.cgraph = None
        cg = CGraph()
        xs = [Function(UTPM(PTS2[ev[1]][k].reshape(1, 1, 2).copy())) for k in (0, 1)]
        o = f(*xs)
        cg.trace_off()
        cg.independentFunctionList = xs
        cg.dependentFunctionList = [o]
        cg.pullback([UTPM(np.ones((1, 1)))])
        return [fx.xbar.data[0, 0].copy() for fx in xs]
    raise ValueError(ev)


def explore_two_inputs(name, tier, only_history=None):
    events = [('fwd', kx, ky, pt) for (kx, ky) in KINDS2 for pt in (0, 1)] + [('rev', 'unit'), ('rev', 'dense'), ('gradient', 0), ('gradient', 1)]
    holder = {}

    def build():
        return Sys2(name)

    def cur(s):
        out = []
        for f in (s.x, s.y):
            v = f.x
            out.append(v.data.copy() if isinstance(v, UTPM) else np.array(v, copy=True))
        return out

    def enabled(s, hist):
        if isinstance(s.out.x, UTPM):
            return events
        return [e for e in events if e[0] != 'rev']

    def step_(s, ev):
        holder['cur'] = cur(s)
        return step2(s, ev)

    def key(s):
        h = hashlib.sha256()
        bases = {}
        for f in s.cg.functionList:
            _feed(h, f.x, bases)
            _feed(h, f.xbar if is_set(f.xbar) else None, bases)
            if is_set(f.setitem):
                _feed(h, f.setitem[1], bases)
        h.update(repr(Function.cgraph is None).encode())
        return h.hexdigest()

    def check(hist, ev, obs, exc, s):
        g = Function.cgraph
        try:
            if exc is not None:
                try:
                    reference2(name, ev, holder['cur'])
                except Exception:
                    return None        # the call fails on a fresh graph too: not a matter of history (C03 territory)
                return {'kind': 'exception-after-history', 'error': AD.last_line(exc)}
            exp = reference2(name, ev, holder['cur'])
            if ev[0] == 'rev':
                for nm in ('x', 'y'):
                    if (nm in obs) != (nm in exp):
                        return {'kind': 'wrong-adjoint', 'which': nm, 'reason': 'presence'}
                    if nm in exp and not close(obs[nm], exp[nm]):
                        return {'kind': 'wrong-adjoint', 'which': nm, 'got': obs[nm].ravel()[:4].tolist(), 'expected': exp[nm].ravel()[:4].tolist()}
                if not obs['values_intact']:
                    return {'kind': 'reverse-sweep-modified-forward-values'}
                return None
            if ev[0] == 'gradient':
                for k in (0, 1):
                    if not close(obs[k], exp[k]):
                        return {'kind': 'wrong-value', 'which': 'xy'[k], 'got': np.asarray(obs[k]).tolist(), 'expected': np.asarray(exp[k]).tolist()}
                return None
            if not close(obs, exp):
                return {'kind': 'wrong-value', 'got': np.asarray(obs).ravel()[:4].tolist(), 'expected': np.asarray(exp).ravel()[:4].tolist()}
            return None
        finally:
            Function.cgraph = g
    if only_history is not None:
        res = EX.Result()
        s = build()
        hist = ()
        for ev in only_history:
            ev = tuple(ev)
            try:
                obs, exc = step_(s, ev), None
            except Exception as e:
                obs, exc = None, e
            res.transitions += 1
            d = check(hist, ev, obs, exc, s)
            if d is not None:
                res.violations.append((list(hist), ev, d))
                break
            hist += (ev,)
        Function.cgraph = None
        return res
    res = EX.bfs(build, enabled, step_, key, 3 if tier == 'quick' else 4, check)
    Function.cgraph = None
    return res


def program_set(tier):
    progs = [(p, 'd1') for p in PR.depth1()]
    progs += [(p, 'scenario:' + n) for n, p in PR.SCENARIOS.items()]
    if tier == 'thorough':
        core = set(n for n, t in PR.TEMPLATES.items() if 'core' in t.tags)
        vb = set(n for n, t in PR.TEMPLATES.items() if t.tags & {'view', 'buf'})
        for p in PR.depth1():
            if p[0][0] in vb and PR.in_domain(p, PR.POINTS[:1]) is None:
                for q in PR.extend(p, names=vb | {'mul(A,A)', 'sin(A)', 'tan(A)'}):
                    progs.append((q, 'd2'))
    return progs


def units(tier, seed):
    us = []
    progs = program_set(tier)
    CH = 6 if tier == 'quick' else 10
    small = [pr for pr in progs if pr[1] == 'd1']
    big = [pr for pr in progs if pr[1] != 'd1']
    for rk in rec_kinds(tier):
        # scenario / depth-2 programs one per unit and first: their state graphs are the largest, and a violation found in one
        # of them is reported without waiting for its neighbours
        for pr in big:
            us.append({'progs': [pr], 'reckind': rk, 'tier': tier, 'seed': seed})
        for i in range(0, len(small), CH):
            us.append({'progs': small[i:i + CH], 'reckind': rk, 'tier': tier, 'seed': seed})
    for name in PROGS2:
        us.append({'two_inputs': name, 'tier': tier, 'seed': seed})
    return us


def run_unit(unit):
    out = {'evals': 0, 'keys': [], 'counters': {}, 'fails': [], 'samples': [], 'states': 0, 'transitions': 0,
           'traces': 0, 'maxima': {}}
    if 'two_inputs' in unit:
        name = unit['two_inputs']
        res = explore_two_inputs(name, unit['tier'])
        out.update({'evals': res.transitions, 'states': res.states, 'transitions': res.transitions, 'traces': res.transitions - len(res.violations),
                    'nontrivial': res.states, 'closed': res.closed})
        out['counters']['two_input_programs_explored'] = 1
        out['samples'] = [{'two_input_program': name, 'history_reaching_a_deepest_state': [list(e) for e in (res.sample or [])], 'states': res.states,
                           'transitions': res.transitions, 'closed': res.closed}]
        seen = set()
        for hist, ev, d in res.violations:
            sig = 'C06|%s|two-inputs prog=%s|ev=%s|prev=%s' % (d['kind'], name, ev[0], hist[-1][0] if hist else 'none')
            if sig in seen:
                continue
            seen.add(sig)
            out['fails'].append({'sig': sig, 'case': {'two_inputs': name, 'tier': unit['tier'], 'history': [list(e) for e in hist] + [list(ev)]}, 'detail': d})
        return out
    closed_all = True
    any_explored = False
    for prog, origin in unit['progs']:
        res, info = explore_program(prog, unit['reckind'], unit['tier'], unit['seed'])
        if res is None:
            k = 'skipped_' + info['skip'].replace(' ', '_')
            out['counters'][k] = out['counters'].get(k, 0) + 1
            continue
        any_explored = True
        out['evals'] += res.transitions
        out['states'] += res.states
        out['transitions'] += res.transitions
        out['traces'] += res.transitions - len(res.violations)
        out['nontrivial'] = out.get('nontrivial', 0) + res.states
        out['counters']['programs_explored'] = out['counters'].get('programs_explored', 0) + 1
        out['counters']['state_graphs_closed' if res.closed else 'state_graphs_open_at_bound'] = \
            out['counters'].get('state_graphs_closed' if res.closed else 'state_graphs_open_at_bound', 0) + 1
        closed_all = closed_all and res.closed
        out['maxima']['states_per_program'] = max(out['maxima'].get('states_per_program', 0), res.states)
        if res.sample and not out['samples']:
            out['samples'] = [{'program': PR.prog_str(prog), 'recorded_as': unit['reckind'],
                               'history_reaching_a_deepest_state': [list(e) for e in res.sample],
                               'states': res.states, 'transitions': res.transitions, 'closed': res.closed}]
        seen_sig = set()
        for hist, ev, detail in res.violations:
            # minimal description: program + the kinds of events in the history + failing event
            sig = 'C06|%s|prog=%s|rec=%s|ev=%s|prev=%s' % (detail['kind'], PR.prog_str(prog), unit['reckind'], ev[0],
                                                           hist[-1][0] if hist else 'none')
            if sig in seen_sig:
                continue
            seen_sig.add(sig)
            out['fails'].append({'sig': sig, 'case': {'prog': prog, 'reckind': unit['reckind'], 'tier': unit['tier'],
                                                      'seed': unit['seed'], 'history': [list(e) for e in hist] + [list(ev)]},
                                 'detail': detail, 'attribs': ['instr:%s' % i[0] for i in prog]})
    if any_explored:
        out['closed'] = closed_all
    return out


def replay(case):
    if 'two_inputs' in case:
        res = explore_two_inputs(case['two_inputs'], case.get('tier', 'quick'), only_history=case['history'])
        return [{'sig': 'C06|%s' % d['kind'], 'detail': d} for (h, e, d) in res.violations]
    res, info = explore_program(case['prog'], case['reckind'], case.get('tier', 'quick'), case.get('seed', 0),
                                only_history=case['history'])
    if res is None:
        return []
    return [{'sig': 'C06|%s' % d['kind'], 'detail': d} for (h, e, d) in res.violations]
