"""C01  Elementary functions return the Taylor coefficients of f(x(t)).

Cells (function, base point x0, D): the real kernel is called ONCE on a UTPM whose element axis carries the
complete unisolvent coefficient grid G_D (|A_k| = floor((D-1)/k)+1 values for coefficient k).  For fixed
(f, x0, D) output coefficient d is a polynomial in x_1..x_d of degree <= floor(d/k) in x_k, for the true
function and for any implementation that does not branch on higher coefficients, so agreement on G_D decides
all real (complex) higher coefficients for that cell.  A second enumeration runs every function on every
(P, coefficient shape) layout with all <=2-deviation patterns and different base points per direction/element.
Oracle: amc/ref/mpref.py (mpmath derivatives of f + extended-precision Horner composition, majorant scale).
"""
import numpy as np

from .. import env
import algopy
from algopy import UTPM
from ..ref import mpref as R

mp = R.mp
sp = algopy.special
ID = 'C01'
RULE = ('cells = (function incl. parameter menu, base point, D, real|complex); per cell the full unisolvent grid of '
        'higher-coefficient patterns is packed along the element axis (evaluations = patterns compared); plus layout cells '
        '(function, D, P, shape) with all <=2-deviation patterns and per-element base points; non-trivial = distinct '
        '(cell, pattern) whose reference has a non-zero coefficient of order >= 1')
ASSUMPTIONS = ['mpmath 1.3 at 50/80 digits gives f^(k)(x0)/k! (self-consistency checked per cell)',
               'base points come from a finite menu per function (every branch of the implementation is represented)',
               'tolerance TOL x majorant, majorant = sum_k |c_k| |dx|^k (cancellation-safe)']
TOL = 1e-12          # x majorant; measured worst on the current tree: <= 6e-15 for all functions except the two below
# (reported per function in the evidence as max_scaled_error[...]); SciPy's hyperu itself is only accurate to ~1e-11
TOL_OVERRIDE = {'hyperu': 1e-8, 'expit': 1e-10, 'dawsn_large': 1e-4}


def tol_for(name):
    for k, v in TOL_OVERRIDE.items():
        if name.startswith(k):
            return v
    return TOL
DMAX = {'quick': 6, 'thorough': 9}

SM = [-1.2, 0.0, 0.7]        # smooth everywhere
SMC = [0.7 + 0.3j, -1.2 + 0.5j, 2.3 - 1.1j]
# entire / periodic functions: also base points whose imaginary part lies beyond pi/2 and beyond pi (other branches of
# any inverse-function shortcut), in both half planes
SMW = SMC + [0.3 + 2.5j, -0.4 - 2.0j, 0.2 + 4.0j]
POSP = [0.3, 1.0, 2.5]
POSC = [0.7 + 0.3j, 0.4 - 0.6j, -0.7 + 0.4j]


def dawson(x):
    return mp.sqrt(mp.pi) / 2 * mp.exp(-x * x) * mp.erfi(x)


def table():
    T = []

    def add(name, f, g, pts, cpts=None, maxD=None):
        T.append({'name': name, 'f': f, 'g': g, 'pts': pts, 'cpts': cpts, 'maxD': maxD})
    add('exp', algopy.exp, mp.exp, SM + [-30.0, 30.0], SMW)
    add('expm1', algopy.expm1, mp.expm1, SM + [1e-9, -30.0], SMW)
    add('log', algopy.log, mp.log, POSP + [1e-6, 1e6], POSC)
    add('log1p', algopy.log1p, mp.log1p, [-0.5, 0.0, 1.5, 1e-9, 1e6], POSC)
    add('sqrt', algopy.sqrt, mp.sqrt, POSP + [1e-6, 1e6], POSC)
    add('sin', algopy.sin, mp.sin, SM, SMW)
    add('cos', algopy.cos, mp.cos, SM, SMW)
    add('tan', algopy.tan, mp.tan, SM, SMW)
    add('arcsin', algopy.arcsin, mp.asin, [-0.7, 0.0, 0.4], [0.3 + 0.3j, 1.5 + 0.5j, -1.3 - 0.4j])
    add('arccos', algopy.arccos, mp.acos, [-0.7, 0.0, 0.4], [0.3 + 0.3j, 1.5 + 0.5j, -1.3 - 0.4j])
    add('arctan', algopy.arctan, mp.atan, SM + [1e4, -1e6], [0.7 + 0.3j, -0.4 + 1.6j])
    add('sinh', algopy.sinh, mp.sinh, SM + [20.0], SMW)
    add('cosh', algopy.cosh, mp.cosh, SM + [-20.0], SMW)
    add('tanh', algopy.tanh, mp.tanh, SM + [3.0, -4.0], SMW)
    add('reciprocal', algopy.reciprocal, lambda x: 1 / x, [-1.2, 0.7, 1e-4, 1e4], SMC)
    add('square', algopy.square, lambda x: x * x, SM, SMW)
    add('negative', algopy.negative, lambda x: -x, SM, SMW)
    add('erf', sp.erf, mp.erf, SM + [5.0, -6.0], [0.7 + 0.3j])
    add('erfi', sp.erfi, mp.erfi, SM + [4.0], [0.7 + 0.3j])
    add('dawsn', sp.dawsn, dawson, SM, [0.7 + 0.3j])
    # large arguments: the library's recurrence F' = 1 - 2 x F loses ~ (2 x^2) eps per order (measured 5e-4 at order 4, x = 30);
    # judged with a loose tolerance up to order 3 only - enough to tell a finite, essentially right value from nan / garbage
    add('dawsn_large', sp.dawsn, dawson, [8.0, 30.0, -40.0], None, maxD=4)
    add('logit', sp.logit, lambda x: mp.log(x / (1 - x)), [0.2, 0.5, 0.8])
    add('expit', sp.expit, lambda x: 1 / (1 + mp.exp(-x)), SM + [8.0, -8.0])
    # log|Gamma| is real-analytic between the non-positive integers as well
    add('gammaln', sp.gammaln, lambda x: mp.log(abs(mp.gamma(x))), [0.5, 1.0, 3.0, 1e-2, 50.0, -0.5, -2.5])
    add('psi', sp.psi, mp.digamma, [0.5, 1.0, 3.0])
    for m in (0, 1, 2):
        add('polygamma(%d)' % m, (lambda x, m=m: sp.polygamma(m, x)), (lambda x, m=m: mp.polygamma(m, x)), [0.5, 1.0, 3.0], maxD=7)
    # order / parameters given as NumPy arrays (0-d) instead of Python numbers
    add('polygamma(array 1)', (lambda x: sp.polygamma(np.array(1), x)), (lambda x: mp.polygamma(1, x)), [0.5, 1.0, 3.0], maxD=7)
    add('hyperu(array 1.5, array 0.5)', (lambda x: sp.hyperu(np.array(1.5), np.array(0.5), x)), (lambda x: mp.hyperu(1.5, 0.5, x)), [0.5, 1.0, 3.0], maxD=6)
    for a, b in [(1.5, 0.5), (0.5, 1.5), (1.0, 2.0)]:
        add('hyperu(%s,%s)' % (a, b), (lambda x, a=a, b=b: sp.hyperu(a, b, x)), (lambda x, a=a, b=b: mp.hyperu(a, b, x)), [0.5, 1.0, 3.0], maxD=6)
    for r in [0, 1, 2, 3, 4, 5, 6, 7, 8, 9, 10, 12, 14, 16, -1, -2, -3]:
        pts = SM if r >= 0 else [-1.2, 0.7]
        add('pow(int %d)' % r, (lambda x, r=r: x ** r), (lambda x, r=r: x ** r), pts, SMC)
    for r in [0.5, 2.5, -1.5]:
        add('pow(%s)' % r, (lambda x, r=r: x ** r), (lambda x, r=r: x ** mp.mpf(r)), POSP, POSC)
    add('pow(2.0)', lambda x: x ** 2.0, lambda x: x * x, SM, SMC)
    add('pow(int64 3)', lambda x: x ** np.int64(3), lambda x: x ** 3, SM, SMC)
    add('pow(float64 2.5)', lambda x: x ** np.float64(2.5), lambda x: x ** mp.mpf(2.5), POSP)
    for b in (2.0, 0.5):
        add('rpow(%s)' % b, (lambda x, b=b: b ** x), (lambda x, b=b: mp.mpf(b) ** x), SM, [0.7 + 0.3j])
    return T


# clip bounds: generic, and a bound that is exactly zero (int, float, numpy scalar) on either side
CLIP_BOUNDS = {'clip': (-0.5, 0.6), 'clip(0.0,0.6)': (0.0, 0.6), 'clip(-0.5,0)': (-0.5, 0), 'clip(float64 0,1.5)': (np.float64(0), 1.5),
               'clip(-3,0.0)': (-3, 0.0)}
KINKED = ['absolute', 'sign', 'minimum', 'maximum', 'abs'] + sorted(CLIP_BOUNDS)


def bounds(tier):
    return {'Dmax': DMAX[tier], 'functions': len(table()) + len(KINKED), 'layouts_P': [1, 2, 3],
            'layout_shapes': [list(s) for s in LAYOUT_SHAPES], 'tol_x_majorant': TOL}


LAYOUT_SHAPES = [(), (2,), (1, 2), (2, 3), (2, 1, 2)]


def units(tier, seed):
    us = []
    for i, e in enumerate(table()):
        dmax = min(DMAX[tier], e['maxD'] or 99)
        for x0 in e['pts']:
            for D in range(1, dmax + 1):
                us.append({'kind': 'grid', 'fi': i, 'x0': x0, 'D': D, 'cplx': False, 'seed': seed, 'tier': tier})
        for x0 in (e['cpts'] or []):
            for D in ([2, 4, DMAX[tier] - 1] if tier == 'quick' else range(1, dmax)):
                us.append({'kind': 'grid', 'fi': i, 'x0': [x0.real, x0.imag], 'D': D, 'cplx': True, 'seed': seed, 'tier': tier})
        for D in (1, 3, 4):
            us.append({'kind': 'layout', 'fi': i, 'D': D, 'seed': seed, 'tier': tier})
    for k in KINKED:
        us.append({'kind': 'kink', 'name': k, 'seed': seed, 'tier': tier})
    us.append({'kind': 'xpowy', 'seed': seed, 'tier': tier})
    us.append({'kind': 'history', 'seed': seed, 'tier': tier})
    return us


def seed_scale(seed):
    """VERIF_SEED rotates the numbers bound to the grid alphabet (a power-of-two scaling and a sign flip), never the
    enumerated structure"""
    return [1.0, -1.0, 0.5, -0.5, 2.0, -2.0][seed % 6]


def compare(Y, Yref, MAJ, name, case, out):
    """Y: algopy output (D,K); returns nothing, appends failures"""
    err = np.abs(np.asarray(Y, dtype=Yref.dtype) - Yref).astype(np.longdouble)
    # error scale: majorant of the order itself plus a floor from the lower orders (recurrences feed rounding of lower
    # orders into higher ones, e.g. x**2.0 has exactly zero coefficients beyond order 2 and the general recurrence
    # returns 1e-16-size noise there)
    cum = np.maximum.accumulate(MAJ, axis=0)
    # absolute floor: the reference derivatives come from 50-digit arithmetic on O(1) data, so a reference coefficient
    # of size 1e-84 is the noise of an exactly vanishing one (x**9 at x_0 = 0 below order 9); with TOL = 1e-12 the floor
    # 1e-28 makes differences below 1e-40 acceptable
    scale = MAJ + np.abs(Yref).astype(np.longdouble) + np.longdouble(1e-3) * cum + np.longdouble(1e-28)
    rel = err / scale
    bad = ~(rel <= tol_for(name))
    out['evals'] += Y.shape[1]
    nz = (np.abs(Yref[1:]).sum(axis=0) > 0) if Y.shape[0] > 1 else np.zeros(Y.shape[1], dtype=bool)
    out['nontrivial'] += int(nz.sum())
    finite = rel[np.isfinite(rel)]
    if finite.size:
        out['maxima']['scaled_error'] = max(out['maxima'].get('scaled_error', 0.0), float(finite.max()))
        out['maxima']['scaled_error[%s]' % name] = max(out['maxima'].get('scaled_error[%s]' % name, 0.0), float(finite.max()))
    if bad.any():
        d, k = np.argwhere(bad)[0]
        first_bad_order = int(np.min(np.argwhere(bad)[:, 0]))
        out['fails'].append({'sig': 'C01|%s|%s|first_bad_order=%d' % (name, case['class'], first_bad_order),
                             'case': case, 'detail': {'order': int(d), 'pattern_index': int(k), 'got': complex(Y[d, k]) if np.iscomplexobj(Y) else float(Y[d, k]),
                                                      'expected': complex(Yref[d, k]) if np.iscomplexobj(Yref) else float(Yref[d, k]),
                                                      'scaled_error': float(rel[d, k]) if np.isfinite(rel[d, k]) else 'nan', 'n_bad': int(bad.sum())}})


def run_grid(u, out):
    e = table()[u['fi']]
    D = u['D']
    cplx = u['cplx']
    x0 = complex(*u['x0']) if cplx else float(u['x0'])
    G = R.grid(D) * seed_scale(u['seed'])              # (D-1, K)
    if cplx:
        rot = np.array([(1 + 0.5j) if k % 2 == 0 else (0.5 - 1j) for k in range(D - 1)])
        G = G * rot[:, None] if D > 1 else G.astype(complex)
    K = G.shape[1]
    X = np.zeros((D, K), dtype=complex if cplx else float)
    X[0] = x0
    X[1:] = G
    case = {'kind': 'grid', 'fi': u['fi'], 'name': e['name'], 'x0': u['x0'], 'D': D, 'cplx': cplx, 'seed': u['seed'],
            'class': ('complex' if cplx else 'real') + ('|x0=0' if x0 == 0 else '')}
    try:
        y = e['f'](UTPM(X.reshape(D, 1, K).copy()))
        Y = y.data.reshape(D, K)
    except Exception as ex:
        out['evals'] += 1
        out['fails'].append({'sig': 'C01|%s|%s|raises' % (e['name'], case['class']), 'case': case,
                             'detail': {'error': '%s: %s' % (type(ex).__name__, str(ex)[:200])}})
        return
    c = R.taylor_coeffs(e['name'], e['g'], x0, D)
    Yref, MAJ = R.compose(c, X)
    if not cplx and np.iscomplexobj(Y):
        Y = Y  # compared as complex against the real reference
    compare(Y, Yref, MAJ, e['name'], case, out)
    if not out['samples']:
        out['samples'].append({'function': e['name'], 'x0': u['x0'], 'D': D, 'complex': cplx, 'patterns_in_grid': int(K),
                               'one_pattern': [complex(v) if cplx else float(v) for v in X[:, K // 2]]})


MEMORY_VARIANTS = ['C', 'F', 'T', 'strided', 'negstride']


def memory_variant(X, mem):
    """the same coefficients presented with a different memory layout of the data array"""
    if mem == 'C':
        return UTPM(X.copy())
    if mem == 'F':
        return UTPM(np.asfortranarray(X))
    if mem == 'T':
        if X.ndim < 4:
            return None
        axes = (0, 1) + tuple(range(X.ndim - 1, 1, -1))
        Xt = np.ascontiguousarray(np.transpose(X, axes))      # coefficient axes reversed, contiguous
        return UTPM(Xt).T                                      # ... and presented through the transposing view
    if mem == 'strided':
        big = np.zeros(X.shape[:-1] + (2 * X.shape[-1],))
        big[..., ::2] = X
        big[..., 1::2] = 7.0
        return UTPM(big[..., ::2])
    if mem == 'negstride':
        return UTPM(X[..., ::-1].copy()[..., ::-1])
    raise ValueError(mem)


def run_layout(u, out):
    e = table()[u['fi']]
    D = u['D']
    pats = R.deviations(D) * seed_scale(u['seed'])              # (D-1, NP)
    NP = pats.shape[1]
    pts = e['pts']
    cases = [(x0, j) for x0 in pts for j in range(NP)]
    flatX = np.zeros((D, len(cases)))
    for i, (x0, j) in enumerate(cases):
        flatX[0, i] = x0
        flatX[1:, i] = pats[:, j]
    # reference per base point
    Yref = np.zeros((D, len(cases)), dtype=np.longdouble)
    MAJ = np.zeros((D, len(cases)), dtype=np.longdouble)
    for x0 in pts:
        idx = [i for i, c in enumerate(cases) if c[0] == x0]
        c = R.taylor_coeffs(e['name'], e['g'], float(x0), D)
        yr, mj = R.compose(c, flatX[:, idx])
        Yref[:, idx] = np.real(yr)
        MAJ[:, idx] = mj
    for P in (1, 2, 3):
        for shape in LAYOUT_SHAPES:
            n = P * int(np.prod(shape, dtype=int))
            # stride through the case list so that neighbouring elements/directions get DIFFERENT base points
            order = np.arange(len(cases)).reshape(len(pts), NP).T.ravel()
            nchunks = -(-len(cases) // n)
            for ch in range(nchunks):
                sel = [order[(ch * n + k) % len(cases)] for k in range(n)]
                X = flatX[:, sel].reshape((D, P) + shape)
                case = {'kind': 'layout', 'fi': u['fi'], 'name': e['name'], 'D': D, 'P': P, 'shape': list(shape), 'chunk': ch,
                        'seed': u['seed'], 'class': 'layout P=%d ndim=%d' % (P, len(shape))}
                for mem in MEMORY_VARIANTS:
                    if mem != 'C' and (len(shape) < 1 or ch > 1):
                        continue
                    case = dict(case, memory=mem, **{'class': 'layout P=%d ndim=%d mem=%s' % (P, len(shape), mem)})
                    try:
                        xin = memory_variant(X, mem)
                        if xin is None:
                            continue
                        keep = xin.data.copy()
                        y = e['f'](xin)
                        if y.data.shape != X.shape:
                            raise ValueError('result shape %s for input %s' % (y.data.shape, X.shape))
                        if not np.array_equal(keep, xin.data):
                            raise ValueError('argument modified')
                        Y = np.ascontiguousarray(y.data).reshape(D, n)
                    except Exception as ex:
                        out['evals'] += 1
                        out['fails'].append({'sig': 'C01|%s|%s|raises' % (e['name'], case['class']), 'case': case,
                                             'detail': {'error': '%s: %s' % (type(ex).__name__, str(ex)[:200])}})
                        continue
                    compare(Y, Yref[:, sel], MAJ[:, sel], e['name'], case, out)


def run_kink(u, out):
    name = u['name']
    D = 4
    pats = R.deviations(D) * seed_scale(u['seed'])
    NP = pats.shape[1]
    for P, shape in [(1, ()), (2, (2,)), (3, (1, 2))]:
        n = P * int(np.prod(shape, dtype=int))
        # O(1) base points and base points at a TINY non-zero distance from the kink at 0 (the branch is decided by the sign
        # of x_0, however small)
        rng_pts = [-1.2, 0.7, -0.3, 2.0, 0.45, -0.9, 1e-9, -1e-9, 3e-13, -2e-16, 1e-300, -1e-300]
        for ch in range(-(-NP // n)):
            sel = [(ch * n + k) % NP for k in range(n)]
            X = np.zeros((D, n))
            X[0] = [rng_pts[(ch + k) % len(rng_pts)] for k in range(n)]
            X[1:] = pats[:, sel]
            Xs = X.reshape((D, P) + shape)
            x = UTPM(Xs.copy())
            case = {'kind': 'kink', 'name': name, 'P': P, 'shape': list(shape), 'chunk': ch, 'seed': u['seed'], 'class': 'kink'}
            try:
                if name == 'absolute':
                    y = algopy.absolute(x).data
                    ref = np.sign(Xs[0]) * Xs
                elif name == 'abs':
                    y = abs(x).data
                    ref = np.sign(Xs[0]) * Xs
                elif name == 'sign':
                    y = algopy.sign(x).data
                    ref = np.zeros_like(Xs)
                    ref[0] = np.sign(Xs[0])
                elif name.startswith('clip'):
                    lo, hi = CLIP_BOUNDS[name]
                    y = sp.botched_clip(lo, hi, x).data
                    ref = np.where((Xs[0] > lo) & (Xs[0] < hi), Xs, 0.0)
                    ref[0] = np.clip(Xs[0], lo, hi)
                else:
                    Z = np.zeros_like(Xs)
                    Z[0] = np.roll(Xs[0].ravel(), 1).reshape(Xs[0].shape) * 0.9 + 0.11
                    Z[1:] = -0.5 * Xs[1:][::-1]
                    z = UTPM(Z.copy())
                    if name == 'minimum':
                        y = algopy.minimum(x, z).data
                        ref = np.where(Xs[0] <= Z[0], Xs, Z)
                    else:
                        y = algopy.maximum(x, z).data
                        ref = np.where(Xs[0] >= Z[0], Xs, Z)
            except Exception as ex:
                out['evals'] += 1
                out['fails'].append({'sig': 'C01|%s|kink|raises' % name, 'case': case,
                                     'detail': {'error': '%s: %s' % (type(ex).__name__, str(ex)[:200])}})
                continue
            out['evals'] += n
            out['nontrivial'] += int((np.abs(ref[1:]).reshape(D - 1, -1).sum(axis=0) > 0).sum())
            if y.shape != ref.shape or not np.array_equal(y, ref):
                bad = np.argwhere(np.asarray(y) != ref) if y.shape == ref.shape else [[-1]]
                out['fails'].append({'sig': 'C01|%s|kink|first_bad_order=%d' % (name, int(bad[0][0])), 'case': case,
                                     'detail': {'index': [int(i) for i in bad[0]], 'shape': list(np.shape(y))}})


def run_xpowy(u, out):
    """x**y with both operands polynomials: reference by mpmath.taylor of t -> x(t)**y(t)"""
    D = 4
    pats = R.deviations(D, kmax=1) * seed_scale(u['seed'])
    NP = pats.shape[1]
    for x0, y0 in [(0.7, 1.3), (2.5, -0.6), (1.0, 2.0)]:
        X = np.zeros((D, NP * NP))
        Y = np.zeros((D, NP * NP))
        k = 0
        for i in range(NP):
            for j in range(NP):
                X[0, k], Y[0, k] = x0, y0
                X[1:, k], Y[1:, k] = pats[:, i], pats[:, j]
                k += 1
        case = {'kind': 'xpowy', 'x0': x0, 'y0': y0, 'seed': u['seed'], 'class': 'x**y'}
        try:
            Z = (UTPM(X.reshape(D, 1, -1).copy()) ** UTPM(Y.reshape(D, 1, -1).copy())).data.reshape(D, -1)
        except Exception as ex:
            out['evals'] += 1
            out['fails'].append({'sig': 'C01|x**y|raises', 'case': case, 'detail': {'error': str(ex)[:200]}})
            continue
        old = mp.mp.dps
        mp.mp.dps = 40
        Zref = np.zeros_like(Z)
        for k in range(X.shape[1]):
            xs = [mp.mpf(v) for v in X[:, k]]
            ys = [mp.mpf(v) for v in Y[:, k]]
            c = mp.taylor(lambda t: mp.polyval(xs[::-1], t) ** mp.polyval(ys[::-1], t), 0, D - 1)
            Zref[:, k] = [float(v) for v in c]
        mp.mp.dps = old
        MAJ = np.abs(Zref) + np.abs(Zref).max(axis=0)[None, :]
        compare(Z, Zref.astype(np.longdouble), MAJ.astype(np.longdouble) * 1e3, 'x**y', case, out)


def run_history(u, out):
    """one UTPM object is reused for a whole sequence of calls: before each call its data array is overwritten IN PLACE
    (new base point, next coefficient patterns), so a result can only be right if it is computed from the current
    contents - not from anything remembered about the object or its array from an earlier call"""
    D = 4
    pats = R.deviations(D) * seed_scale(u['seed'])
    NP = pats.shape[1]
    K = 8
    x = UTPM(np.zeros((D, 1, K)))
    tab = table()
    order = list(range(len(tab)))
    rounds = 2
    step = 0
    for rnd in range(rounds):
        for fi in (order if rnd == 0 else order[::-1]):
            e = tab[fi]
            x0 = e['pts'][(step + rnd) % len(e['pts'])]
            sel = [(step * 3 + k) % NP for k in range(K)]
            x.data[0, 0, :] = x0
            x.data[1:, 0, :] = pats[:, sel]
            step += 1
            X = x.data.reshape(D, K).copy()
            case = {'kind': 'history', 'upto': step, 'name': e['name'], 'seed': u['seed'], 'class': 'history(reused object)'}
            try:
                Y = e['f'](x).data.reshape(D, K)
            except Exception as ex:
                out['evals'] += 1
                out['fails'].append({'sig': 'C01|%s|history|raises' % e['name'], 'case': case, 'detail': {'error': str(ex)[:200]}})
                continue
            c = R.taylor_coeffs(e['name'], e['g'], float(x0), D)
            Yref, MAJ = R.compose(c, X)
            compare(Y, Yref, MAJ, e['name'], case, out)


def run_unit(u):
    out = {'evals': 0, 'nontrivial': 0, 'fails': [], 'samples': [], 'maxima': {}, 'counters': {}}
    if u['kind'] == 'grid':
        run_grid(u, out)
    elif u['kind'] == 'layout':
        run_layout(u, out)
    elif u['kind'] == 'kink':
        run_kink(u, out)
    elif u['kind'] == 'history':
        run_history(u, out)
    else:
        run_xpowy(u, out)
    out['counters']['cells_' + u['kind']] = 1
    return out


def replay(case):
    out = {'evals': 0, 'nontrivial': 0, 'fails': [], 'samples': [], 'maxima': {}, 'counters': {}}
    u = dict(case)
    u.setdefault('tier', 'thorough')
    if case['kind'] == 'grid':
        run_grid(u, out)
    elif case['kind'] == 'layout':
        run_layout(u, out)
        out['fails'] = [f for f in out['fails'] if f['case'].get('P') == case.get('P') and f['case'].get('shape') == case.get('shape')
                        and f['case'].get('chunk') == case.get('chunk') and f['case'].get('memory') == case.get('memory')]
    elif case['kind'] == 'kink':
        run_kink(u, out)
    elif case['kind'] == 'history':
        run_history(u, out)
        out['fails'] = [f for f in out['fails'] if f['case'].get('upto') == case.get('upto')]
    else:
        run_xpowy(u, out)
    return out['fails']
