"""C11  Directions are propagated independently.

Forward: every catalogue entry (amc/catalogue.py) x P in {2,3} x D in {1,3,4}, with DIFFERENT base points per direction
(different values; for matrices different pivot patterns and eigenvalue orderings): y.data[:,p] must equal the result of
the same call on the single-direction polynomial UTPM(x.data[:, p:p+1]).  Also every enumerated program (depth 1 full
alphabet, depth 2 over the core alphabet) on a P=3 curve.
Reverse: every enumerated program: xbar.data[:,p] of a sweep with a dense per-direction seed must equal the sweep of
direction p alone with its own seed.
Oracle: metamorphic (the single-direction run); tolerance 1e-12 x scale (bit-identical on the current tree; the
property allows the rounding of vectorised kernels).
"""
import numpy as np

from .. import env
from .. import catalogue as CAT
from .. import programs as PR
from .. import adjoint as AD
import algopy
from algopy import UTPM, Function

ID = 'C11'
RULE = ('cases = (catalogue entry, D, P) and (program, D, P=3, forward|reverse); each compares every direction with its '
        'single-direction run; non-trivial = cases whose directions have different base points and D > 1 (all P>1 cases here '
        'have different base points); distinct = distinct (entry|program, D, P, mode)')
ASSUMPTIONS = ['the single-direction evaluation is the reference (its correctness is C01-C08)']
TOL = 1e-12
DPS = [(1, 2), (3, 2), (3, 3), (4, 3)]
MANY_DP = {'quick': [(2, 40)], 'thorough': [(2, 40), (3, 33), (2, 65), (2, 100)]}
CHUNK_E = 10
CHUNK_P = 60


def bounds(tier):
    return {'DP_entries': DPS, 'program_depth_full': 1, 'program_depth_core': 2, 'program_curves': [(3, 3)] if tier == 'quick' else [(2, 2), (3, 3), (4, 3)]}


def programs(tier):
    core = set(n for n, t in PR.TEMPLATES.items() if 'core' in t.tags)
    progs = [(p, 1) for p in PR.depth1()]
    for p in PR.depth1():
        if PR.in_domain(p, PR.POINTS[:1]) is None and (tier == 'thorough' or p[0][0] in core):
            progs += [(q, 2) for q in PR.extend(p, names=core if tier == 'quick' else None)]
    progs += [(p, 0) for p in PR.SCENARIOS.values()]
    return progs


def units(tier, seed):
    us = []
    names = [e.name for e in CAT.ENTRIES]
    for i in range(0, len(names), CHUNK_E):
        us.append({'kind': 'entries', 'names': names[i:i + CHUNK_E], 'tier': tier, 'seed': seed})
    us.append({'kind': 'mixed', 'tier': tier, 'seed': seed})
    progs = programs(tier)
    for i in range(0, len(progs), CHUNK_P):
        us.append({'kind': 'programs', 'progs': progs[i:i + CHUNK_P], 'tier': tier, 'seed': seed})
    return us


def cmp_dir(full, single, p):
    """full: (D,P,...) ; single: (D,1,...)"""
    a = np.asarray(full)[:, p]
    b = np.asarray(single)[:, 0]
    if a.shape != b.shape:
        return 'shape %s vs %s' % (a.shape, b.shape), 0.0
    if a.tobytes() == b.tobytes():
        return None, 0.0
    fin = np.isfinite(a) & np.isfinite(b)
    if not fin.all():
        # non-finite entries must sit at the same places with the same kind (nan / +inf / -inf)
        same = (np.isnan(a) & np.isnan(b)) | (a == b)
        if not np.all(same | fin):
            return 'non-finite entries differ', float('inf')
        a = np.where(fin, a, 0.0)
        b = np.where(fin, b, 0.0)
    sc = 1.0 + np.max(np.abs(b)) if b.size else 1.0
    err = np.abs(a - b) / sc
    w = float(np.nanmax(err)) if err.size else 0.0
    if not np.all(err <= TOL):
        return 'value (max scaled difference %.3g)' % w, w
    return None, w


def check_entry(e, D, P, seed, out):
    for variant in CAT.variants_for(e, D, nonfinite=True):
        check_entry_variant(e, D, P, seed, out, variant)


def check_entry_variant(e, D, P, seed, out, variant):
    case = {'kind': 'entry', 'name': e.name, 'D': D, 'P': P, 'seed': seed, 'variant': variant}
    args = CAT.make_args(e, D, P, seed, variant)
    out['evals'] += 1
    try:
        res = CAT.outputs(e.fn(*args))
    except Exception as ex:
        out['counters']['raises (reported by C10)'] = out['counters'].get('raises (reported by C10)', 0) + 1
        return
    out['keys'].append('%s|%d|%d|%s' % (e.name, D, P, variant))
    for p in range(P):
        sargs = [UTPM(a.data[:, p:p + 1].copy()) if isinstance(a, UTPM) else a for a in args]
        try:
            sres = CAT.outputs(e.fn(*sargs))
        except Exception as ex:
            out['fails'].append({'sig': 'C11|%s|single direction raises' % e.name, 'case': case, 'detail': {'error': str(ex)[:200], 'direction': p}})
            return
        for k, (o, so) in enumerate(zip(res, sres)):
            if not isinstance(o, UTPM):
                continue
            why, w = cmp_dir(o.data, so.data, p)
            out['maxima']['scaled_difference'] = max(out['maxima'].get('scaled_difference', 0.0), w)
            if why:
                out['fails'].append({'sig': 'C11|%s%s|forward|direction %s' % (e.name, '' if variant == 'dense' else '{%s}' % variant, '0' if p == 0 else '>0'), 'case': case,
                                     'detail': {'output': k, 'direction': p, 'why': why}})
                return


def check_program(prog, depth, D, P, seed, out, modes=('forward', 'reverse')):
    pts = list(range(P))
    if any('D1only' in PR.TEMPLATES[i[0]].tags for i in prog) and D > 1:
        return
    if PR.in_domain(prog, [PR.POINTS[p] for p in pts]) is not None:
        out['counters']['skipped_out_of_domain'] = out['counters'].get('skipped_out_of_domain', 0) + 1
        return
    xdata = PR.curve(seed, D, P)
    case = {'kind': 'program', 'prog': prog, 'depth': depth, 'D': D, 'P': P, 'seed': seed}
    ps = PR.prog_str(prog)
    try:
        y = AD.forward(prog, xdata)
        if not isinstance(y, UTPM):
            return
    except Exception:
        out['counters']['forward_unsupported'] = out['counters'].get('forward_unsupported', 0) + 1
        return
    if 'forward' in modes:
        out['evals'] += 1
        out['keys'].append('%s|%d|%d|fwd' % (ps, D, P))
        for p in range(P):
            try:
                ys = AD.forward(prog, xdata[:, p:p + 1])
            except Exception as ex:
                out['fails'].append({'sig': 'C11|prog=%s|forward single direction raises' % ps, 'case': dict(case, mode='forward'), 'detail': {'error': str(ex)[:200]},
                                     'attribs': ['instr:%s|forward' % i[0] for i in prog]})
                return
            why, w = cmp_dir(y.data, ys.data, p)
            out['maxima']['scaled_difference'] = max(out['maxima'].get('scaled_difference', 0.0), w)
            if why:
                out['fails'].append({'sig': 'C11|prog=%s|forward' % ps, 'case': dict(case, mode='forward'), 'detail': {'direction': p, 'why': why},
                                     'attribs': ['instr:%s|forward' % i[0] for i in prog]})
                return
    if 'reverse' in modes:
        ybar = AD.dense(y.data.shape, seed, 5)
        try:
            xbar, _, _, _ = AD.reverse(prog, xdata, lambda shp, dt: ybar.copy())
        except AD.Outcome:
            out['counters']['reverse_unsupported_or_failing (C03)'] = out['counters'].get('reverse_unsupported_or_failing (C03)', 0) + 1
            return
        out['evals'] += 1
        out['keys'].append('%s|%d|%d|rev' % (ps, D, P))
        for p in range(P):
            try:
                xs, _, _, _ = AD.reverse(prog, xdata[:, p:p + 1], lambda shp, dt: ybar[:, p:p + 1].copy())
            except AD.Outcome as o:
                out['fails'].append({'sig': 'C11|prog=%s|reverse single direction %s' % (ps, o.cls), 'case': dict(case, mode='reverse'), 'detail': {'msg': o.msg},
                                     'attribs': ['instr:%s|reverse' % i[0] for i in prog]})
                return
            why, w = cmp_dir(xbar, xs, p)
            out['maxima']['scaled_difference'] = max(out['maxima'].get('scaled_difference', 0.0), w)
            if why:
                out['fails'].append({'sig': 'C11|prog=%s|reverse' % ps, 'case': dict(case, mode='reverse'), 'detail': {'direction': p, 'why': why},
                                     'attribs': ['instr:%s|reverse' % i[0] for i in prog]})
                return


def _orth(n, k):
    """a fixed orthogonal matrix (product of Givens rotations)"""
    Q = np.eye(n)
    for i in range(n - 1):
        c, s_ = np.cos(0.7 + i + k), np.sin(0.7 + i + k)
        G = np.eye(n)
        G[i, i] = c
        G[i + 1, i + 1] = c
        G[i, i + 1] = -s_
        G[i + 1, i] = s_
        Q = Q.dot(G)
    return Q


def mixed_cases(seed):
    """directions with DIFFERENT STRUCTURE: (name, fn, data (D,P,..), directions to judge)"""
    cases = []
    rng = np.random.default_rng(55 + seed)
    for D in (1, 2, 3):
        for n, spectra in [(3, [(1.0, 2.0, 4.0), (2.0, 2.0, 5.0)]), (3, [(2.0, 2.0, 5.0), (1.0, 2.5, 4.0)]), (3, [(1.0, 1.0, 3.0), (1.0, 3.0, 3.0), (0.5, 2.0, 3.5)]),
                           (4, [(1.0, 2.0, 2.0, 4.0), (1.0, 2.0, 3.0, 4.5)])]:
            P = len(spectra)
            data = np.zeros((D, P, n, n))
            for p, lam in enumerate(spectra):
                Q = _orth(n, p)
                data[0, p] = Q.dot(np.diag(lam)).dot(Q.T)
            h = np.round(rng.uniform(-1, 1, size=(max(D - 1, 0), P, n, n)) * 8) / 8.0
            data[1:] = h + np.swapaxes(h, -1, -2)
            judge = [p for p, lam in enumerate(spectra) if len(set(lam)) == n]
            cases.append(('eigh mixed multiplicities n=%d %s' % (n, spectra), algopy.eigh, data, judge))
    for D in (2, 3):
        for shape in [(3, 3), (4, 3)]:
            for order in (0, 1):
                P = 2
                data = np.round(rng.uniform(-1, 1, size=(D, P) + shape) * 8) / 8.0
                good = np.array([[2.0, 0.5, -1.0], [0.25, -3.0, 0.5], [1.0, 0.5, 4.0], [0.5, -1.0, 0.75]])[:shape[0]]
                bad = good.copy()
                bad[:, 2] = bad[:, 0] + bad[:, 1]          # rank deficient
                data[0, order] = good
                data[0, 1 - order] = bad
                for nm, f in (('qr', algopy.qr), ('qr_full', algopy.qr_full)):
                    if nm == 'qr_full' and shape[0] == shape[1]:
                        continue
                    cases.append(('%s rank-deficient neighbour %s regular direction %d' % (nm, list(shape), order), f, data, [order]))
    # logdet: positive determinants reached through DIFFERENT pivot sign patterns (no pivoting / one row exchange with a negative
    # pivot / two negative pivots)
    for D in (1, 2, 3):
        mats = [np.array([[2.0, 1.0], [1.0, 3.0]]), np.array([[1.0, 2.0], [-3.0, 1.0]]), np.array([[-2.0, 1.0], [1.0, -3.0]])]
        for order in ((0, 1), (1, 0), (0, 2), (1, 2, 0)):
            P = len(order)
            data = np.zeros((D, P, 2, 2))
            for p, k in enumerate(order):
                data[0, p] = mats[k]
            data[1:] = np.round(rng.uniform(-1, 1, size=(max(D - 1, 0), P, 2, 2)) * 8) / 8.0
            cases.append(('logdet pivot sign patterns %s' % (order,), algopy.logdet, data, list(range(P))))
    # eig (D <= 2): a direction with a complex spectrum next to a real one whose LAPACK order is not ascending
    for D in (1, 2):
        rot = np.array([[0.0, 1.0, 0.0], [-1.0, 0.0, 0.0], [0.0, 0.0, 2.0]])
        tri = np.array([[3.0, 1.0, 0.5], [0.0, 1.0, 2.0], [0.0, 0.0, 2.0]])
        tri2 = np.array([[1.0, 0.5, 0.0], [0.0, 4.0, 1.0], [0.0, 0.0, 2.5]])
        for pair in ((rot, tri), (tri, rot), (tri2, tri), (tri, tri2)):
            data = np.zeros((D, 2, 3, 3))
            data[0, 0], data[0, 1] = pair
            data[1:] = np.round(rng.uniform(-1, 1, size=(max(D - 1, 0), 2, 3, 3)) * 8) / 8.0
            judge = [p for p in range(2) if pair[p] is not rot]
            cases.append(('eig real direction next to %s' % ('a complex one' if any(q is rot for q in pair) else 'another real one'), algopy.eig, data, judge))
    return cases


def run_mixed(u, out):
    for name, f, data, judge in mixed_cases(u['seed']):
        D, P = data.shape[:2]
        case = {'kind': 'mixed', 'name': name, 'D': D, 'P': P, 'seed': u['seed']}
        out['evals'] += 1
        out['keys'].append(name + '|D=%d' % D)
        # forward
        try:
            res = CAT.outputs(f(UTPM(data.copy())))
        except Exception as ex:
            out['counters']['mixed_forward_raises'] = out['counters'].get('mixed_forward_raises', 0) + 1
            res = None
        if res is not None:
            for p in judge:
                try:
                    sres = CAT.outputs(f(UTPM(data[:, p:p + 1].copy())))
                except Exception as ex:
                    continue
                for k, (o, so) in enumerate(zip(res, sres)):
                    why, w = cmp_dir(o.data, so.data, p)
                    if why:
                        out['fails'].append({'sig': 'C11|mixed structure|%s|forward' % name.split(' ')[0], 'case': dict(case, mode='forward'),
                                             'detail': {'output': k, 'direction': p, 'why': why}})
                        break
        # reverse (seeds for every output)
        def sweep(dat):
            Function.cgraph = None
            cg = algopy.CGraph()
            x = Function(UTPM(dat.copy()))
            ys = f(x)
            if isinstance(ys, Function) and isinstance(ys.x, tuple):
                outs = [ys[i] for i in range(len(ys.x))]
            else:
                outs = list(ys) if isinstance(ys, tuple) else [ys]
            cg.trace_off()
            cg.independentFunctionList = [x]
            cg.dependentFunctionList = outs
            seeds = [UTPM(AD.dense(o.x.data.shape, u['seed'], 40 + k)) for k, o in enumerate(outs)]
            return cg, x, seeds
        try:
            cg, x, seeds = sweep(data)
            cg.pullback(seeds)
            xbar = x.xbar.data.copy()
        except Exception as ex:
            Function.cgraph = None
            out['counters']['mixed_reverse_raises'] = out['counters'].get('mixed_reverse_raises', 0) + 1
            continue
        for p in judge:
            try:
                cg1, x1, _ = sweep(data[:, p:p + 1])
                cg1.pullback([UTPM(sd.data[:, p:p + 1].copy()) for sd in seeds])
            except Exception as ex:
                Function.cgraph = None
                continue
            why, w = cmp_dir(xbar, x1.xbar.data, p)
            if why:
                out['fails'].append({'sig': 'C11|mixed structure|%s|reverse' % name.split(' ')[0], 'case': dict(case, mode='reverse'),
                                     'detail': {'direction': p, 'why': why}})
    # eigh1 (the relaxed eigenproblem: block structure per direction) called directly, forward and pullback
    for name, f, data, judge in mixed_cases(u['seed']):
        if not name.startswith('eigh '):
            continue
        D, P = data.shape[:2]
        case = {'kind': 'mixed', 'name': 'eigh1 ' + name[5:], 'D': D, 'P': P, 'seed': u['seed']}
        out['evals'] += 1
        out['keys'].append('eigh1 ' + name + '|D=%d' % D)
        try:
            A = UTPM(data.copy())
            L, Q, b = UTPM.eigh1(A)
            Lbar = UTPM(AD.dense(L.data.shape, u['seed'], 61))
            Qbar = UTPM(AD.dense(Q.data.shape, u['seed'], 62))
            Abar = UTPM.pb_eigh1(UTPM(Lbar.data.copy()), UTPM(Qbar.data.copy()), None, A, L, Q, b)
        except Exception as ex:
            out['counters']['eigh1_raises'] = out['counters'].get('eigh1_raises', 0) + 1
            continue
        if len(b) != P:
            out['fails'].append({'sig': 'C11|mixed structure|eigh1|block lists', 'case': case, 'detail': {'len': len(b), 'P': P}})
            continue
        for p in range(P):
            try:
                A1 = UTPM(data[:, p:p + 1].copy())
                L1, Q1, b1 = UTPM.eigh1(A1)
                Abar1 = UTPM.pb_eigh1(UTPM(Lbar.data[:, p:p + 1].copy()), UTPM(Qbar.data[:, p:p + 1].copy()), None, A1, L1, Q1, b1)
            except Exception as ex:
                out['fails'].append({'sig': 'C11|mixed structure|eigh1|single direction raises', 'case': case, 'detail': {'direction': p, 'error': str(ex)[:160]}})
                break
            bad = None
            if len(b1) != 1 or not np.array_equal(np.asarray(b1[0]), np.asarray(b[p])):
                bad = 'block structure'
            for nm, full, one in (('L', L.data, L1.data), ('Q', Q.data, Q1.data), ('Abar', Abar.data, Abar1.data)):
                if bad:
                    break
                why, w = cmp_dir(full, one, p)
                if why:
                    bad = nm + ': ' + why
            if bad:
                out['fails'].append({'sig': 'C11|mixed structure|eigh1|%s' % bad.split(':')[0], 'case': case, 'detail': {'direction': p, 'why': bad}})
                break
    out['samples'] = [{'mixed_structure_cases': [c[0] for c in mixed_cases(u['seed'])][:4]}]


def check_jacobian_driver(prog, depth, D, P, seed, out):
    """cg.jacobian(UTPM curve with P directions): the Taylor-Jacobian of direction p must equal the one of direction p alone"""
    if PR.in_domain(prog, [PR.POINTS[p] for p in range(P)] + [PR.POINTS[3]]) is not None:
        return
    xdata = PR.curve(seed, D, P)
    ps = PR.prog_str(prog)
    case = {'kind': 'jacobian', 'prog': prog, 'depth': depth, 'D': D, 'P': P, 'seed': seed}
    Function.cgraph = None
    try:
        cg, x, y = PR.record(prog, np.array(PR.POINTS[3]))
        if not hasattr(y, 'x') or np.ndim(y.x) != 1:
            return
        J = cg.jacobian(UTPM(xdata.copy()))
    except Exception:
        Function.cgraph = None
        return
    out['evals'] += 1
    out['keys'].append('%s|%d|%d|jacobian' % (ps, D, P))
    for p in range(P):
        try:
            Function.cgraph = None
            cg1, x1, y1 = PR.record(prog, np.array(PR.POINTS[3]))
            J1 = cg1.jacobian(UTPM(xdata[:, p:p + 1].copy()))
        except Exception:
            Function.cgraph = None
            return
        why, w = cmp_dir(J.data, J1.data, p)
        if why:
            out['fails'].append({'sig': 'C11|prog=%s|jacobian(UTPM)' % ps, 'case': case, 'detail': {'direction': p, 'why': why},
                                 'attribs': ['instr:%s|jacobian' % i[0] for i in prog]})
            break
    Function.cgraph = None


def run_unit(u):
    out = {'evals': 0, 'keys': [], 'fails': [], 'samples': [], 'counters': {}, 'maxima': {}}
    if u['kind'] == 'mixed':
        run_mixed(u, out)
    elif u['kind'] == 'entries':
        for nm in u['names']:
            e = CAT.BY_NAME[nm]
            for (D, P) in DPS:
                if D <= e.maxD:
                    check_entry(e, D, P, u['seed'], out)
            # many directions (a kernel may process the direction axis in blocks): every direction against its own run
            for (D, P) in (MANY_DP[u['tier']]):
                if D <= e.maxD:
                    check_entry_variant(e, D, P, u['seed'], out, 'dense')
        out['samples'] = [{'entry': u['names'][0], 'DP': DPS, 'base_points': 'different per direction'}]
    else:
        curves = [(3, 3)] if u['tier'] == 'quick' else [(2, 2), (3, 3), (4, 3)]
        for prog, depth in u['progs']:
            for (D, P) in curves:
                check_program(prog, depth, D, P, u['seed'], out)
            if depth <= 1:
                check_jacobian_driver(prog, depth, 2, 3, u['seed'], out)
        out['samples'] = [{'program': PR.prog_str(u['progs'][0][0]), 'curves': curves, 'modes': ['forward', 'reverse']}]
    return out


def replay(case):
    out = {'evals': 0, 'keys': [], 'fails': [], 'samples': [], 'counters': {}, 'maxima': {}}
    if case['kind'] == 'mixed':
        run_mixed({'seed': case.get('seed', 0)}, out)
        out['fails'] = [f for f in out['fails'] if f['case']['name'] == case['name'] and f['case']['D'] == case['D'] and f['case'].get('mode') == case.get('mode')]
    elif case['kind'] == 'entry':
        check_entry_variant(CAT.BY_NAME[case['name']], case['D'], case['P'], case.get('seed', 0), out, case.get('variant', 'dense'))
    elif case['kind'] == 'jacobian':
        check_jacobian_driver(case['prog'], case.get('depth', 1), case['D'], case['P'], case.get('seed', 0), out)
    else:
        check_program(case['prog'], case.get('depth', 1), case['D'], case['P'], case.get('seed', 0), out, modes=(case.get('mode', 'forward'),))
    return out['fails']
