"""C13  Shape-manipulating operations act slice-wise like NumPy, with view semantics.

Enumerated completely (structurally generated, not filtered):
 * getitem: ALL basic-index expressions over coefficient shapes (3,), (2,3), (2,1,2): tuples of ints in [-n,n), slices
   from the slice alphabet, at most one Ellipsis, up to two newaxis, of any admissible length; value per (d,p) slice and
   memory sharing (numpy.shares_memory(result.data, x.data)) must match NumPy's on a plain array;
 * setitem through the same expressions (reduced alphabet) x rhs kind {UTPM of the selected shape, scalar-shaped UTPM,
   ndarray of the selected shape, Python float, NumPy scalar}: a NumPy array of the full data updated slice-wise is the
   reference (a constant sets coefficient 0 and clears the higher ones); untouched elements unchanged;
 * write-through: y = x[i]; y[j] = v updates x exactly as NumPy does;
 * reshape to every factorisation of the size (incl. -1 and int), transpose / .T for ndim 0..3, sum over every axis
   (negative too) and None, tile with every reps of length <= ndim+1 over {1,2}, diag (vector<->matrix, k in {-1,0,1},
   rectangular), triu/tril k in -2..2 on rectangular shapes, trace, symvec/vecsym, neg, conjugate, real, imag,
   fft/ifft (n in {None, smaller, larger}, every axis), zeros/ones(_like) for int, tuple and () shapes with real and
   complex carriers.
Oracle: NumPy applied to each (d,p) slice, bit-wise.  An expression NumPy rejects must be rejected too.
"""
import itertools

import numpy as np

from .. import env
import algopy
from algopy import UTPM

ID = 'C13'
RULE = ('cases = every generated (operation, shape, argument) combination, each evaluated for (D,P) in the menu and compared '
        'slice-wise with NumPy; non-trivial = cases whose NumPy result differs from the input array in shape or content; '
        'distinct = distinct (operation, shape, argument, rhs kind)')
ASSUMPTIONS = ['NumPy is the executable specification', 'coefficient ndim <= 3']
DPS = [(1, 1), (3, 2)]
SHAPES = [(3,), (2, 3), (2, 1, 2)]


def bounds(tier):
    return {'DP': DPS, 'index_shapes': [list(s) for s in SHAPES], 'slice_alphabet': len(slices_for(tier, 3)), 'max_newaxis': 2}


def slices_for(tier, n, ndim=1):
    if tier == 'quick':
        return [slice(None), slice(1, None), slice(None, -1), slice(None, None, 2), slice(None, None, -1), slice(1, None, -1)]
    out = []
    if ndim >= 3:           # medium alphabet for 3-D shapes (the full one gives 5e7 expressions)
        S, E, ST = (None, 1, -1), (None, -1, n), (None, 2, -1)
    else:
        S, E, ST = (None, 0, 1, -1, n), (None, 0, 1, -1, n), (None, 1, 2, -1, -2)
    for s in S:
        for e in E:
            for st in ST:
                out.append(slice(s, e, st))
    return out


def index_exprs(shape, tier, max_none=2, reduced=False):
    """all basic-index tuples, generated structurally"""
    ndim = len(shape)
    per_axis = []
    for n in shape:
        sl = slices_for(tier, n, ndim)
        if reduced:
            sl = [slice(None), slice(1, None), slice(None, None, -1)]
        per_axis.append(list(range(-n, n)) + sl)
    seen = set()
    out = []

    def emit(elems):
        # insert up to max_none newaxis at every combination of positions
        L = len(elems)
        for k in range(0, max_none + 1):
            for pos in itertools.combinations_with_replacement(range(L + 1), k):
                e = list(elems)
                for off, p in enumerate(sorted(pos)):
                    e.insert(p + off, None)
                key = repr(e)
                if key not in seen:
                    seen.add(key)
                    out.append(tuple(e))
    for k in range(0, ndim + 1):
        # no Ellipsis: index the k leading axes
        for combo in itertools.product(*per_axis[:k]):
            emit(list(combo))
        # Ellipsis at position e: e leading axes, k-e trailing axes
        for e in range(0, k + 1):
            lead = per_axis[:e]
            trail = per_axis[ndim - (k - e):] if k - e > 0 else []
            for combo in itertools.product(*(lead + trail)):
                c = list(combo)
                emit(c[:e] + [Ellipsis] + c[e:])
    return out


def fill(shape, D, P, cplx=False, off=0):
    n = D * P * int(np.prod(shape, dtype=int))
    a = ((np.arange(n) * 7 + off) % 31 - 15) / 4.0 + 0.125
    a = a.reshape((D, P) + tuple(shape))
    if cplx:
        a = a + 1j * (((np.arange(n) * 5 + off) % 17 - 8) / 8.0).reshape(a.shape)
    return a


def idx_repr(ix):
    def one(e):
        if e is None:
            return 'None'
        if e is Ellipsis:
            return '...'
        if isinstance(e, slice):
            return '%s:%s:%s' % ('' if e.start is None else e.start, '' if e.stop is None else e.stop, '' if e.step is None else e.step)
        return str(e)
    return '[' + ','.join(one(e) for e in (ix if isinstance(ix, tuple) else (ix,))) + ']'


def idx_class(ix):
    t = ix if isinstance(ix, tuple) else (ix,)
    parts = []
    if any(e is None for e in t):
        parts.append('newaxis')
    if any(e is Ellipsis for e in t):
        parts.append('ellipsis')
    if any(isinstance(e, slice) and e.step not in (None, 1) for e in t):
        parts.append('step')
    if any(isinstance(e, int) and e < 0 for e in t):
        parts.append('negint')
    return '+'.join(parts) or 'plain'


class Ctx(object):
    def __init__(self, u):
        self.u = u
        self.out = {'evals': 0, 'keys': [], 'fails': [], 'samples': [], 'counters': {}}
        self.seen = set()

    def fail(self, sig, case, detail):
        if sig in self.seen:
            self.out['counters']['further_failing_cases'] = self.out['counters'].get('further_failing_cases', 0) + 1
            return
        self.seen.add(sig)
        self.out['fails'].append({'sig': sig, 'case': dict(self.u, **case), 'detail': detail})


def slicewise(fn_np, data, *a):
    D, P = data.shape[:2]
    res = [[fn_np(data[d, p], *a) for p in range(P)] for d in range(D)]
    return np.array(res)


def run_getitem(c, shape, exprs):
    for (D, P) in DPS:
        X = fill(shape, D, P)
        x = UTPM(X.copy())
        plain = X[0, 0].copy()
        for ix in exprs:
            c.out['evals'] += 1
            if D == DPS[0][0]:
                c.out['keys'].append('get|%s|%s' % (shape, idx_repr(ix)))
            try:
                ref0 = plain[ix]
                np_ok = True
            except Exception:
                np_ok = False
            try:
                y = x[ix]
                ok = True
            except Exception as ex:
                ok = False
                err = str(ex)[:120]
            case = {'op': 'getitem', 'shape': list(shape), 'index': idx_repr(ix), 'D': D, 'P': P}
            if not np_ok:
                if ok:
                    c.fail('C13|getitem|accepts an index NumPy rejects|%s' % idx_class(ix), case, {})
                continue
            if not ok:
                c.fail('C13|getitem|raises|%s|ndim=%d' % (idx_class(ix), len(shape)), case, {'error': err})
                continue
            ref = X[(slice(None), slice(None)) + (ix if isinstance(ix, tuple) else (ix,))] if Ellipsis not in (ix if isinstance(ix, tuple) else (ix,)) or True else None
            # reference slice by slice
            refs = np.array([[X[d, p][ix] for p in range(P)] for d in range(D)])
            if y.data.shape != refs.shape or not np.array_equal(y.data, refs):
                c.fail('C13|getitem|value|%s|ndim=%d' % (idx_class(ix), len(shape)), case, {'got_shape': list(y.data.shape), 'expected_shape': list(refs.shape)})
                continue
            # NumPy hands out a scalar (not a view) when every axis is indexed by an int; the polynomial is still a view
            if isinstance(ref0, np.ndarray) and np.size(ref0) > 0 and np.shares_memory(y.data, x.data) != np.shares_memory(ref0, plain):
                c.fail('C13|getitem|memory sharing|%s' % idx_class(ix), case, {'numpy_shares': bool(np.shares_memory(ref0, plain))})


RHS_KINDS = ['utpm', 'utpm_scalar', 'ndarray', 'float', 'np.float64', 'own0view', 'own0rev', 'own_utpm_shift', 'own_utpm_rev']


def run_setitem(c, shape, exprs):
    for (D, P) in DPS:
        X = fill(shape, D, P)
        for ix in exprs:
            try:
                sel = X[0, 0][ix]
            except Exception:
                continue
            if np.size(sel) == 0:
                continue
            for rk in RHS_KINDS:
                c.out['evals'] += 1
                if D == DPS[0][0]:
                    c.out['keys'].append('set|%s|%s|%s' % (shape, idx_repr(ix), rk))
                x = UTPM(X.copy())
                ref = X.copy()
                sshape = np.shape(sel)
                if rk == 'utpm':
                    R = fill(sshape, D, P, off=3) * 2.0
                    rhs = UTPM(R.copy())
                elif rk == 'utpm_scalar':
                    R = fill((), D, P, off=5) * 2.0
                    rhs = UTPM(R.copy())
                elif rk == 'ndarray':
                    R = fill(sshape, 1, 1, off=7)[0, 0] * 2.0
                    rhs = np.array(R, copy=True)
                elif rk in ('own_utpm_shift', 'own_utpm_rev'):
                    # the right-hand side is another VIEW OF THE SAME POLYNOMIAL overlapping the assigned region
                    # (x[1:] = x[:-1], x[...] = x[::-1] ...): NumPy semantics = the values before the assignment
                    if np.ndim(sel) == 0:
                        continue
                    n0 = X.shape[2]
                    cand = x[::-1] if rk == 'own_utpm_rev' else (x[:-1] if n0 > 1 else None)
                    if cand is None or cand.data.shape[2:] != sshape:
                        continue
                    rhs = cand
                    R = np.array(cand.data, copy=True)
                elif rk in ('own0view', 'own0rev'):
                    # the right-hand side is a VIEW of the polynomial's own zeroth coefficient (direction 0) that overlaps
                    # the assigned region: NumPy semantics = the values before the assignment
                    if P != 1 or np.ndim(sel) == 0:
                        continue
                    src = x.data[0, 0]
                    flat = src.reshape(-1) if src.flags['C_CONTIGUOUS'] else None
                    if flat is None or flat.size < np.size(sel):
                        continue
                    view = flat[:np.size(sel)] if rk == 'own0view' else flat[::-1][:np.size(sel)]
                    try:
                        rhs = view.reshape(sshape)
                    except Exception:
                        continue
                    if not np.shares_memory(rhs, x.data):
                        continue
                    R = np.array(rhs, copy=True)
                elif rk == 'float':
                    R = rhs = 2.75
                else:
                    R = rhs = np.float64(-1.25)
                for d in range(D):
                    for p in range(P):
                        if rk in ('utpm', 'utpm_scalar', 'own_utpm_shift', 'own_utpm_rev'):
                            ref[d, p][ix] = R[d, p]
                        else:
                            ref[d, p][ix] = R if d == 0 else 0.0
                case = {'op': 'setitem', 'shape': list(shape), 'index': idx_repr(ix), 'rhs': rk, 'D': D, 'P': P}
                try:
                    x[ix] = rhs
                except Exception as ex:
                    c.fail('C13|setitem|raises|%s|rhs=%s' % (idx_class(ix), rk), case, {'error': str(ex)[:120]})
                    continue
                if not np.array_equal(x.data, ref):
                    c.fail('C13|setitem|value|%s|rhs=%s' % (idx_class(ix), rk), case, {})


def run_writethrough(c):
    for shape in [(3,), (2, 3)]:
        for (D, P) in DPS:
            X = fill(shape, D, P)
            firsts = [0, -1, slice(1, None), slice(None, None, -1), Ellipsis, None] + ([(slice(None), 1), (1, slice(None, 2))] if len(shape) == 2 else [])
            for i in firsts:
                v0 = X[0, 0][i]
                if np.ndim(v0) == 0:
                    seconds = [Ellipsis]
                else:
                    seconds = [0, -1, Ellipsis, slice(None, None, 2)]
                for j in seconds:
                    c.out['evals'] += 1
                    c.out['keys'].append('wt|%s|%s|%s|%d' % (shape, idx_repr(i), idx_repr(j), D))
                    x = UTPM(X.copy())
                    ref = X.copy()
                    case = {'op': 'writethrough', 'shape': list(shape), 'first': idx_repr(i), 'second': idx_repr(j), 'D': D, 'P': P}
                    try:
                        y = x[i]
                        val = UTPM(fill(np.shape(y.data[0, 0][j]), D, P, off=9) * 4.0)
                        y[j] = val
                        for d in range(D):
                            for p in range(P):
                                if np.ndim(v0) == 0:
                                    ref[d, p][i] = val.data[d, p]
                                else:
                                    ref[d, p][i][j] = val.data[d, p]
                    except Exception as ex:
                        c.fail('C13|write-through|raises', case, {'error': str(ex)[:120]})
                        continue
                    if not np.array_equal(x.data, ref):
                        c.fail('C13|write-through|parent not updated', case, {})
            # transposed view
            if len(shape) == 2:
                x = UTPM(X.copy())
                ref = X.copy()
                t = x.T
                val = UTPM(fill((shape[0],), D, P, off=2))
                t[1] = val
                for d in range(D):
                    for p in range(P):
                        ref[d, p].T[1] = val.data[d, p]
                c.out['evals'] += 1
                if not np.array_equal(x.data, ref):
                    c.fail('C13|write-through|transposed view', {'op': 'writethrough', 'shape': list(shape), 'D': D, 'P': P}, {})


def factorizations(n):
    out = set()
    for a in range(1, n + 1):
        if n % a == 0:
            out.add((a, n // a))
            for b in range(1, n // a + 1):
                if (n // a) % b == 0:
                    out.add((a, b, n // a // b))
    out.add((n,))
    return sorted(out)


def compare_op(c, name, arg, x, X, f_algopy, f_numpy, view=None, cls=None):
    """generic: result.data[d,p] == f_numpy(X[d,p])"""
    D, P = X.shape[:2]
    c.out['evals'] += 1
    c.out['keys'].append('%s|%s|%s|%d' % (name, X.shape[2:], arg, D))
    case = {'op': name, 'shape': list(X.shape[2:]), 'arg': str(arg), 'D': D, 'P': P}
    try:
        ref = np.array([[f_numpy(X[d, p]) for p in range(P)] for d in range(D)])
        np_ok = True
    except Exception:
        np_ok = False
    try:
        y = f_algopy(x)
        ok = True
    except Exception as ex:
        ok = False
        err = '%s: %s' % (type(ex).__name__, str(ex)[:120])
    sigarg = cls if cls is not None else str(arg)
    if not np_ok:
        if ok:
            c.fail('C13|%s|accepts what NumPy rejects|%s' % (name, sigarg), case, {})
        return
    if not ok:
        c.fail('C13|%s|raises|%s|ndim=%d' % (name, sigarg, X.ndim - 2), case, {'error': err})
        return
    if not isinstance(y, UTPM) or y.data.shape != ref.shape or not np.array_equal(y.data, ref, equal_nan=True):
        c.fail('C13|%s|value|%s|ndim=%d' % (name, sigarg, X.ndim - 2), case,
               {'got_shape': list(getattr(getattr(y, 'data', None), 'shape', [])), 'expected_shape': list(ref.shape)})
        return
    if view is not None:
        if np.shares_memory(y.data, x.data) != view:
            c.fail('C13|%s|memory sharing|%s' % (name, sigarg), case, {'expected_view': view})
    if not np.array_equal(x.data, X, equal_nan=True):
        c.fail('C13|%s|argument modified' % name, case, {})


def run_ops(c, tier):
    for (D, P) in DPS:
        for cplx in (False, True):
            for shape in [(), (3,), (2, 3), (6,), (2, 1, 2), (2, 3, 2)]:
                X = fill(shape, D, P, cplx)
                x = UTPM(X.copy())
                n = int(np.prod(shape, dtype=int))
                tag = 'complex' if cplx else 'real'
                # reshape
                if n > 1 and not cplx:
                    for ns in factorizations(n) + [(-1,), (n // 2, -1) if n % 2 == 0 else (-1, 1), n]:
                        compare_op(c, 'reshape', ns, x, X, lambda a, ns=ns: algopy.reshape(a, ns), lambda a, ns=ns: np.reshape(a, ns), view=True, cls='%dd' % (len(ns) if isinstance(ns, tuple) else 0))
                        if isinstance(ns, tuple):
                            compare_op(c, 'x.reshape', ns, x, X, lambda a, ns=ns: a.reshape(ns), lambda a, ns=ns: a.reshape(ns), view=True, cls='%dd' % len(ns))
                    # reshape of non-contiguous data: values must still be right
                    if len(shape) == 2:
                        compare_op(c, 'reshape(x.T)', (n,), x, X, lambda a: algopy.reshape(a.T, (n,)), lambda a: np.reshape(a.T, (n,)), cls='1d')
                compare_op(c, 'transpose', tag, x, X, algopy.transpose, np.transpose, view=True)
                compare_op(c, '.T', tag, x, X, lambda a: a.T, lambda a: a.T, view=True)
                compare_op(c, 'x.transpose()', tag, x, X, lambda a: a.transpose(), lambda a: a.transpose(), view=True)
                compare_op(c, 'neg', tag, x, X, lambda a: -a, lambda a: -a)
                compare_op(c, 'conjugate', tag, x, X, algopy.conjugate, np.conjugate)
                compare_op(c, 'real', tag, x, X, algopy.real, np.real)
                compare_op(c, 'imag', tag, x, X, algopy.imag, np.imag)
                compare_op(c, 'zeros_like', tag, x, X, algopy.zeros_like, np.zeros_like)
                # sum
                compare_op(c, 'sum', 'None|' + tag, x, X, algopy.sum, np.sum, cls='axis=None')
                compare_op(c, 'x.sum()', 'None|' + tag, x, X, lambda a: a.sum(), np.sum, cls='axis=None')
                for ax in range(-len(shape), len(shape)):
                    compare_op(c, 'sum', 'axis=%d|%s' % (ax, tag), x, X, lambda a, ax=ax: algopy.sum(a, axis=ax), lambda a, ax=ax: np.sum(a, axis=ax),
                               cls='axis%s0' % ('<' if ax < 0 else '>='))
                if not cplx:
                    for L in range(1, len(shape) + 2):
                        for reps in itertools.product((1, 2), repeat=L):
                            compare_op(c, 'tile', reps, x, X, lambda a, reps=reps: algopy.tile(a, reps), lambda a, reps=reps: np.tile(a, reps),
                                       cls='len(reps)%sndim' % ('>' if L > len(shape) else '<='))
                    compare_op(c, 'tile', 2, x, X, lambda a: algopy.tile(a, 2), lambda a: np.tile(a, 2), cls='int reps')
            # matrix / vector structure operations
            for shape in [(3,), (2,), (3, 3), (2, 3), (3, 2)]:
                X = fill(shape, D, P, cplx)
                x = UTPM(X.copy())
                tag = 'complex' if cplx else 'real'
                for k in (-1, 0, 1):
                    compare_op(c, 'diag', 'k=%d|%s' % (k, tag), x, X, lambda a, k=k: algopy.diag(a, k), lambda a, k=k: np.diag(a, k),
                               cls='k%s0|%s' % ('=' if k == 0 else '!=', 'vector' if len(shape) == 1 else ('square' if shape[0] == shape[1] else 'rectangular')))
                compare_op(c, 'diag', 'default|' + tag, x, X, algopy.diag, np.diag, cls='default')
                if len(shape) == 2:
                    for k in (-2, -1, 0, 1, 2):
                        compare_op(c, 'triu', 'k=%d|%s' % (k, tag), x, X, lambda a, k=k: algopy.triu(a, k), lambda a, k=k: np.triu(a, k), cls='k%s0' % ('=' if k == 0 else '!='))
                        compare_op(c, 'tril', 'k=%d|%s' % (k, tag), x, X, lambda a, k=k: algopy.tril(a, k), lambda a, k=k: np.tril(a, k), cls='k%s0' % ('=' if k == 0 else '!='))
                    compare_op(c, 'trace', tag, x, X, algopy.trace, np.trace)
                    for tshape in [(4, 2), (5, 1), (1, 4), (6, 3), (2, 6)]:
                        TX = fill(tshape, D, P, cplx)
                        compare_op(c, 'trace', '%s|%s' % (tshape, tag), UTPM(TX.copy()), TX, algopy.trace, np.trace, cls='tall' if tshape[0] > tshape[1] else 'wide')
                    for axis in (-1, 0, 1, -2):
                        for nn in (None, 2, 4):
                            compare_op(c, 'fft', 'n=%s axis=%d|%s' % (nn, axis, tag), x, X, lambda a, nn=nn, axis=axis: algopy.fft.fft(a, n=nn, axis=axis),
                                       lambda a, nn=nn, axis=axis: np.fft.fft(a, n=nn, axis=axis), cls='n=%s|axis%s' % ('None' if nn is None else 'int', '=-1' if axis == -1 else '!=-1'))
                            compare_op(c, 'ifft', 'n=%s axis=%d|%s' % (nn, axis, tag), x, X, lambda a, nn=nn, axis=axis: algopy.fft.ifft(a, n=nn, axis=axis),
                                       lambda a, nn=nn, axis=axis: np.fft.ifft(a, n=nn, axis=axis), cls='n=%s|axis%s' % ('None' if nn is None else 'int', '=-1' if axis == -1 else '!=-1'))
                else:
                    compare_op(c, 'fft', 'vector|' + tag, x, X, algopy.fft.fft, np.fft.fft, cls='vector')
            # stacks of matrices: numpy.triu / tril act on the LAST two axes
            for shape in [(2, 3, 3), (3, 2, 4), (2, 2, 3, 2)]:
                X = fill(shape, D, P, cplx)
                x = UTPM(X.copy())
                tag = 'complex' if cplx else 'real'
                for k in (-1, 0, 1, 2):
                    compare_op(c, 'triu', 'stack k=%d|%s' % (k, tag), x, X, lambda a, k=k: algopy.triu(a, k), lambda a, k=k: np.triu(a, k), cls='stack of matrices')
                    compare_op(c, 'tril', 'stack k=%d|%s' % (k, tag), x, X, lambda a, k=k: algopy.tril(a, k), lambda a, k=k: np.tril(a, k), cls='stack of matrices')
            # zeros / ones with a polynomial dtype carrier
            for carrier_shape in [(), (2,)]:
                C = fill(carrier_shape, D, P, cplx)
                cx = UTPM(C.copy())
                for shp in [3, (3,), (2, 2), (), (2, 1, 2)]:
                    for nm, f, val in (('zeros', algopy.zeros, 0.0), ('ones', algopy.ones, 1.0)):
                        c.out['evals'] += 1
                        c.out['keys'].append('%s|%s|%s|%s|%d' % (nm, shp, carrier_shape, cplx, D))
                        case = {'op': nm, 'shape': str(shp), 'carrier': list(carrier_shape), 'complex': cplx, 'D': D, 'P': P}
                        try:
                            z = f(shp, dtype=cx)
                            tshape = (shp,) if isinstance(shp, int) else tuple(shp)
                            ref = np.zeros((D, P) + tshape, dtype=C.dtype)
                            ref[0] = val
                            if not (isinstance(z, UTPM) and z.data.shape == ref.shape and np.array_equal(z.data, ref) and z.data.dtype == ref.dtype):
                                c.fail('C13|%s(dtype=UTPM)|value|%s' % (nm, 'complex' if cplx else 'real'), case,
                                       {'got_shape': list(getattr(getattr(z, 'data', None), 'shape', [])), 'dtype': str(getattr(getattr(z, 'data', None), 'dtype', None))})
                        except Exception as ex:
                            c.fail('C13|%s(dtype=UTPM)|raises|shape=%s' % (nm, 'int' if isinstance(shp, int) else ('()' if shp == () else 'tuple')), case, {'error': str(ex)[:120]})
        # non-finite entries (inf / nan in single coefficient slices): operations that only select or move entries must move
        # them and nothing else, exactly like NumPy (selection, not multiplication by a mask)
        for shape in [(3,), (3, 3), (2, 3), (3, 2), (2, 2, 3)]:
            for pos in range(3):
                X = fill(shape, D, P, off=pos)
                flat = X.reshape(D, P, -1)
                nel = flat.shape[2]
                flat[D - 1, 0, (pos * 2 + 1) % nel] = np.nan
                flat[0, P - 1, (pos * 3 + nel - 1) % nel] = np.inf
                flat[D // 2, P - 1, (pos + nel // 2) % nel] = -np.inf
                x = UTPM(X.copy())
                tag = 'nonfinite'
                compare_op(c, 'transpose', tag, x, X, algopy.transpose, np.transpose, view=True)
                compare_op(c, 'reshape', tag, x, X, lambda a: algopy.reshape(a, (-1,)), lambda a: np.reshape(a, (-1,)), cls=tag)
                compare_op(c, 'tile', tag, x, X, lambda a: algopy.tile(a, 2), lambda a: np.tile(a, 2), cls=tag)
                compare_op(c, 'zeros_like', tag, x, X, algopy.zeros_like, np.zeros_like)
                compare_op(c, 'getitem', tag, x, X, lambda a: a[..., ::-1], lambda a: a[..., ::-1], cls=tag)
                compare_op(c, 'neg', tag, x, X, lambda a: -a, lambda a: -a)
                if len(shape) <= 2:
                    for k in (-1, 0, 1):
                        compare_op(c, 'diag', 'k=%d|%s' % (k, tag), x, X, lambda a, k=k: algopy.diag(a, k), lambda a, k=k: np.diag(a, k), cls=tag)
                if len(shape) == 2:
                    for k in (-1, 0, 1):
                        compare_op(c, 'triu', 'k=%d|%s' % (k, tag), x, X, lambda a, k=k: algopy.triu(a, k), lambda a, k=k: np.triu(a, k), cls=tag)
                        compare_op(c, 'tril', 'k=%d|%s' % (k, tag), x, X, lambda a, k=k: algopy.tril(a, k), lambda a, k=k: np.tril(a, k), cls=tag)
                    compare_op(c, 'trace', tag, x, X, algopy.trace, np.trace, cls=tag)
                for ax in range(len(shape)):
                    compare_op(c, 'sum', 'axis=%d|%s' % (ax, tag), x, X, lambda a, ax=ax: algopy.sum(a, axis=ax), lambda a, ax=ax: np.sum(a, axis=ax), cls=tag)
        # symvec / vecsym (slice-wise definition)
        for N in (1, 2, 3, 4):
            X = fill((N, N), D, P)
            X = X + np.swapaxes(X, -1, -2)
            x = UTPM(X.copy())
            compare_op(c, 'symvec', 'N=%d' % N, x, X, algopy.symvec, lambda a: algopy.utils.symvec(a), cls='F')
            Xn = fill((N, N), D, P, off=5)          # non-symmetric: 'L' / 'U' read one triangle, row-wise distinct entries
            for UPLO in 'FLU':
                def ref_symvec(a, UPLO=UPLO):
                    if UPLO == 'F':
                        return np.array([0.5 * (a[r, cc] + a[cc, r]) for r in range(N) for cc in range(r, N)])
                    if UPLO == 'L':
                        return np.array([a[cc, r] for r in range(N) for cc in range(r, N)])
                    return np.array([a[r, cc] for r in range(N) for cc in range(r, N)])
                compare_op(c, 'symvec', 'N=%d UPLO=%s' % (N, UPLO), UTPM(Xn.copy()), Xn, lambda a, UPLO=UPLO: algopy.symvec(a, UPLO), ref_symvec, cls='UPLO=' + UPLO)
            V = fill((N * (N + 1) // 2,), D, P)
            compare_op(c, 'vecsym', 'N=%d' % N, UTPM(V.copy()), V, algopy.vecsym, lambda a: algopy.utils.vecsym(a), cls='v')


def units(tier, seed):
    us = []
    for si, shape in enumerate(SHAPES):
        nchunks = 1 if si == 0 else (6 if tier == 'quick' else 48)
        for k in range(nchunks):
            us.append({'kind': 'getitem', 'shape': list(shape), 'chunk': k, 'nchunks': nchunks, 'tier': tier, 'seed': seed})
    for shape in [(3,), (2, 3)]:
        us.append({'kind': 'setitem', 'shape': list(shape), 'tier': tier, 'seed': seed})
    us.append({'kind': 'writethrough', 'tier': tier, 'seed': seed})
    us.append({'kind': 'ops', 'tier': tier, 'seed': seed})
    return us


def run_unit(u):
    c = Ctx(u)
    if u['kind'] == 'getitem':
        shape = tuple(u['shape'])
        ex = index_exprs(shape, u['tier'], max_none=2 if len(shape) < 3 else 1)
        ex = ex[u['chunk']::u['nchunks']]
        run_getitem(c, shape, ex)
        c.out['samples'] = [{'op': 'getitem', 'shape': u['shape'], 'expressions_in_unit': len(ex), 'examples': [idx_repr(e) for e in ex[5:60:11]]}]
    elif u['kind'] == 'setitem':
        shape = tuple(u['shape'])
        ex = index_exprs(shape, u['tier'], max_none=1, reduced=True)
        run_setitem(c, shape, ex)
    elif u['kind'] == 'writethrough':
        run_writethrough(c)
    else:
        run_ops(c, u['tier'])
    return c.out


def replay(case):
    u = dict((k, v) for k, v in case.items() if k in ('kind', 'shape', 'chunk', 'nchunks', 'tier', 'seed'))
    u.setdefault('tier', 'quick')
    out = run_unit(u)
    keys = [k for k in ('op', 'index', 'rhs', 'arg', 'D', 'P', 'first', 'second') if k in case]
    hits = [f for f in out['fails'] if all(f['case'].get(k) == case.get(k) for k in keys)]
    return hits
