"""C03  Reverse mode agrees with forward mode at every Taylor order.

Space: every type-correct program over the instruction set of amc/programs.py up to a depth bound
(depth 1: every template on every admissible operand combination; depth 2/3: every extension that
consumes the previous result), plus hand-written buffer/view scenarios, x input curves (D,P) with
DIFFERENT base points per direction, x adjoint seeds (dense non-symmetric seeds at all orders, and for
depth 1 in the thorough tier the full basis e_i t^a x e_j t^b, i.e. the whole Taylor-Jacobian).
Oracle: forward propagation alone (amc/adjoint.py).
Outcome classes per program: ok | unsupported/untraceable (an exception IS raised - allowed) |
wrong (identity violated) | crash (a pullback exists but the sweep dies) - the last two are violations.
"""
import re
import json

from .. import env
from .. import programs as PR
from .. import adjoint as AD
from .. import findings

ID = 'C03'
RULE = ('programs = all type-correct instruction sequences up to the depth bound (each new instruction consumes the '
        'previous result) + scenarios; each program is run on every (D,P) curve of the tier with per-direction base '
        'points; non-trivial = program in domain at all base points, traced, with a UTPM result and a reverse sweep '
        'that was compared with the forward oracle (or raised a classified exception); distinct = distinct '
        '(program, curve) pairs')
ASSUMPTIONS = ['forward-mode kernels are correct up to 2D coefficients (checked by C01/C02/C07/C08)',
               'packing several seeds along the direction axis is sound (C11); an unpacked K=1 run is included',
               'small-scope hypothesis beyond depth/D/P bounds; base points from a finite menu']

CURVES = {'quick': [(1, 1), (2, 1), (3, 2)], 'thorough': [(1, 1), (2, 1), (3, 2), (4, 3)]}
CURVES_D2_QUICK = [(2, 1), (3, 2)]       # depth-2 programs in the quick tier
MULTI_CURVE = {'quick': (2, 1), 'thorough': (3, 2)}     # several independents / dependents: depth-2 programs on this curve only
CHUNK = 40


def bounds(tier):
    return {'depth_full_alphabet': 2, 'depth_core': 2 if tier == 'quick' else 3,
            'curves_DP': CURVES[tier], 'basis_seeds_depth1': tier == 'thorough', 'n': PR.N, 'NX': PR.NX}


def instr_key(ins):
    tn, refs = ins
    t = PR.TEMPLATES[tn]
    if t.mut and len(refs) > 1 and refs[0] == refs[1]:
        return tn + '@self'
    return tn


def core_names():
    return [n for n, t in PR.TEMPLATES.items() if 'core' in t.tags]


def enumerate_programs(tier):
    progs = [(p, 1) for p in PR.depth1()]
    d1_ok = [p for p in PR.depth1() if PR.in_domain(p, PR.POINTS[:1]) is None]
    core = set(core_names())
    skipped = 0
    d2 = []
    for p in d1_ok:
        for q in PR.extend(p, names=None):
            d2.append(q)
    d3 = []
    if tier == 'thorough':
        view_buf = set(n for n, t in PR.TEMPLATES.items() if t.tags & {'view', 'buf'}) | {'mul(A,A)', 'add(A,A)', 'dot(M,M)', 'sum(M,0)', 'pow(A,2)'}
        for q in d2:
            if all(i[0] in core for i in q) and any(i[0] in view_buf for i in q):
                if PR.in_domain(q, PR.POINTS[:1]) is None:
                    for r in PR.extend(q, names=view_buf, use_older=True):
                        d3.append(r)
    out = list(progs)
    for q in d2:
        out.append((q, 2))
    for q in d3:
        out.append((q, 3))
    res = list(out)
    for name, p in PR.SCENARIOS.items():
        res.append((p, 0))
    for p in PR.fanout_programs():
        res.append((p, 4))
    return res, skipped


def units(tier, seed):
    progs, skipped = enumerate_programs(tier)
    us = []
    for i in range(0, len(progs), CHUNK):
        us.append({'progs': progs[i:i + CHUNK], 'tier': tier, 'seed': seed, 'skipped_known': skipped if i == 0 else 0})
    return us


def run_program(prog, depth, tier, seed, curves=None, modes=None):
    """returns dict(cls, minD, detail, evals, keys, skipped)"""
    res = {'evals': 0, 'keys': [], 'counters': {}, 'fails': [], 'worst': 0.0}
    d1only = any('D1only' in PR.TEMPLATES[i[0]].tags for i in prog)
    classes = []
    for (D, P) in (curves or (CURVES_D2_QUICK if (tier == 'quick' and depth == 2) else CURVES[tier])):
        if d1only and D > 1:
            continue
        res['evals'] += 1
        pts = list(range(P))
        why = PR.in_domain(prog, [PR.POINTS[p] for p in pts])
        if why is not None:
            res['counters']['skipped_out_of_domain'] = res['counters'].get('skipped_out_of_domain', 0) + 1
            continue
        xdata = PR.curve(seed, D, P)
        runs = [('dense2', lambda: AD.check_dense(prog, xdata, seed, K=2))]
        if D == 2 and P == 1:
            runs.append(('dense1', lambda: AD.check_dense(prog, xdata, seed + 17, K=1)))
        if tier == 'thorough' and depth <= 1 and P == 1:
            runs.append(('basis', lambda: AD.check_basis(prog, xdata)))
        if (D, P) == MULTI_CURVE[tier] or (depth != 2 and D > 1):
            runs.append(('multi', lambda: AD.check_multi(prog, xdata, seed + 5)))
        for mode, fn in runs:
            if modes is not None and mode not in modes:
                continue
            try:
                ok, w, detail = fn()
                cls = 'ok' if ok else 'wrong'
            except AD.Outcome as o:
                cls, w, detail = o.cls, 0.0, {'msg': o.msg}
            if cls == 'ok':
                res['worst'] = max(res['worst'], w)
            classes.append((cls, D, P, mode, detail))
            res['counters']['class_' + cls] = res['counters'].get('class_' + cls, 0) + 1
        res['keys'].append('%s|%d|%d' % (PR.prog_str(prog), D, P))
    badc = [c for c in classes if c[0] in ('wrong', 'crash')]
    if badc:
        cls = 'wrong' if any(c[0] == 'wrong' for c in badc) else 'crash'
        minD = min(c[1] for c in badc)
        minP = min(c[2] for c in badc if c[1] == minD)
        first = [c for c in badc if c[1] == minD and c[2] == minP][0]
        sig = 'C03|%s|prog=%s|minD=%d' % (cls, PR.prog_str(prog), minD)
        d1 = 'bad' if minD == 1 else 'ok'
        attribs = sorted(set('instr:%s|D1=%s' % (instr_key(i), d1) for i in prog)) if len(prog) > 1 else []
        res['fails'].append({'sig': sig, 'attribs': attribs, 'case': {'prog': prog, 'depth': depth, 'tier': tier, 'seed': seed,
                                                  'curves': [[minD, minP]], 'modes': [first[3]]},
                             'detail': {'class': first[0], 'D': minD, 'P': minP, 'mode': first[3], 'info': first[4],
                                        'all_failing_curves': sorted(set((c[1], c[2]) for c in badc))}})
    return res


def run_unit(unit):
    out = {'evals': 0, 'keys': [], 'counters': {'skipped_contains_known_finding': unit.get('skipped_known', 0)},
           'fails': [], 'samples': [], 'maxima': {'scaled_adjoint_error_on_ok': 0.0}}
    for prog, depth in unit['progs']:
        r = run_program(prog, depth, unit['tier'], unit['seed'])
        out['evals'] += r['evals']
        out['keys'] += r['keys']
        out['fails'] += r['fails']
        for k, v in r['counters'].items():
            out['counters'][k] = out['counters'].get(k, 0) + v
        out['counters']['programs_depth_%d' % depth] = out['counters'].get('programs_depth_%d' % depth, 0) + 1
        out['maxima']['scaled_adjoint_error_on_ok'] = max(out['maxima']['scaled_adjoint_error_on_ok'], r['worst'])
        if r['worst'] > 1e-11:
            out['maxima']['scaled_adjoint_error[%s]' % PR.prog_str(prog)] = r['worst']
    if unit['progs']:
        p, d = unit['progs'][len(unit['progs']) // 2]
        out['samples'] = [{'program': PR.prog_str(p), 'depth': d, 'curves': CURVES[unit['tier']]}]
    return out


def replay(case):
    r = run_program(case['prog'], case.get('depth', 1), case.get('tier', 'quick'), case.get('seed', 0),
                    curves=[tuple(c) for c in case['curves']], modes=case.get('modes'))
    return r['fails']
