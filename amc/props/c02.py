"""C02  Arithmetic is exact truncated power-series arithmetic for every operand mix.

Space: op in {+,-,*,/} x form {binary, reflected (constant on the left), in-place} x operand kinds
{UTPM real, UTPM complex, Python int/float/complex, NumPy float64/float32/int64/complex128 scalars,
ndarray float/int/complex} x every NumPy-broadcastable shape pair of the shape set (incl. a constant with more
dimensions than the polynomial, and a leading constant axis equal to P) x (D,P) menu x value fills (dense
all-distinct dyadic, sparse basis-like, power-of-two divisors, general divisors); for scalar shape and D<=3 ALL
|DY|^D x |DY|^D coefficient tuples; integer powers with every exponent kind.
Oracle: exact rational series arithmetic (amc/ref/qseries.py), bit-wise equality where float arithmetic is exact
(+,-,*, / by powers of two), 8 eps x majorant otherwise.  Shape oracle numpy.broadcast_shapes, dtype: complex iff an
operand is complex.
"""
import itertools
import operator
from fractions import Fraction

import numpy as np

from .. import env
import algopy
from algopy import UTPM
from ..ref import qseries as QS

ID = 'C02'
RULE = ('cases = (op, form, left kind, right kind, shape pair, (D,P), value fill); each is executed once on the real '
        'operators and compared coefficient-wise with exact rational series arithmetic; plus all |DY|^D x |DY|^D scalar '
        'tuples for D<=3; non-trivial = distinct cases whose exact result has a non-zero coefficient of order >= 1 or a '
        'non-trivial broadcast')
ASSUMPTIONS = ['Fraction / exact-complex arithmetic is the reference', 'dyadic value alphabets make + - * exact in binary64',
               'shapes up to 3 dimensions, D <= 5']
EPS = 2.0 ** -52
DY = [1.0, -0.5, 2.0, 0.75, -1.5, 0.25, 3.0, -2.0, 1.5, -0.75, 0.5, -1.0, 4.0, -3.0, 1.25, -0.25]
P2 = [1.0, -2.0, 0.5, 4.0, -0.25, 2.0, -1.0, 0.125]
GEN = [1.0 / 3, 0.7, -1.3, 2.1, -0.9, 1.7, 0.3, -2.3]
SHAPES = [(), (1,), (2,), (3,), (1, 2), (2, 1), (2, 2), (2, 3), (2, 1, 2)]
DPS = {'quick': [(1, 1), (2, 1), (3, 2), (4, 3)], 'thorough': [(1, 1), (2, 1), (3, 2), (4, 3), (5, 2), (3, 3)]}
OPS = {'add': operator.add, 'sub': operator.sub, 'mul': operator.mul, 'div': operator.truediv}
IOPS = {'add': operator.iadd, 'sub': operator.isub, 'mul': operator.imul, 'div': operator.itruediv}
SCALAR_KINDS = ['int', 'float', 'complex', 'np.float64', 'np.float32', 'np.int64', 'np.complex128', 'np.uint8', 'np.int8', 'bool']
ARRAY_KINDS = ['arr.float', 'arr.int', 'arr.complex', 'arr.uint8']


def bounds(tier):
    return {'DP': DPS[tier], 'shapes': [list(s) for s in SHAPES], 'scalar_kinds': SCALAR_KINDS, 'array_kinds': ARRAY_KINDS,
            'all_tuples_D': [1, 2, 3] if tier == 'thorough' else [1, 2]}


def seq(alpha, n, off):
    return np.array([alpha[(off + 5 * i + (i // len(alpha))) % len(alpha)] for i in range(n)])


def fill_utpm(D, P, shape, cplx, mode, off, divisor=False):
    n = D * P * int(np.prod(shape, dtype=int))
    a = seq(DY, n, off).reshape((D, P) + shape)
    if mode == 'sparse':
        mask = np.zeros(a.shape, dtype=bool)
        mask[0] = True
        flat = mask.reshape(D, -1)
        for k in range(flat.shape[1]):
            if D > 1:
                flat[1 + (k + off) % (D - 1), k] = True
        a = np.where(mask, a, 0.0)
    if divisor == 'pow2':
        a[0] = seq(P2, a[0].size, off + 1).reshape(a[0].shape)
    elif divisor == 'gen':
        a[0] = seq(GEN, a[0].size, off + 1).reshape(a[0].shape)
    if cplx:
        b = seq(DY, n, off + 7).reshape((D, P) + shape)
        if divisor == 'pow2':
            b[0] = 0.0            # keep |b0|^2 a power of two: purely real or imaginary power of two
        a = a + 1j * b
    return a


def make_const(kind, shape, off, divisor=False):
    alpha = P2 if divisor == 'pow2' else (GEN if divisor == 'gen' else DY)
    if kind == 'int':
        return [2, -1, 4, -2][off % 4]
    if kind == 'float':
        return float(alpha[off % len(alpha)])
    if kind == 'complex':
        return complex(0.0, float(P2[off % len(P2)])) if divisor == 'pow2' else complex(alpha[off % len(alpha)], DY[(off + 3) % len(DY)])
    if kind == 'np.float64':
        return np.float64(alpha[off % len(alpha)])
    if kind == 'np.float32':
        return np.float32([0.5, -0.5, 2.0, 0.25][off % 4]) if divisor == 'pow2' else np.float32([1.5, -0.5, 2.0, 0.25][off % 4])
    if kind == 'np.int64':
        return np.int64([2, -1, 4, -2][off % 4])
    if kind == 'np.uint8':
        return np.uint8([2, 1, 4, 8][off % 4])
    if kind == 'np.int8':
        return np.int8([2, -1, 4, -128][off % 4])
    if kind == 'bool':
        return True
    if kind == 'np.complex128':
        return np.complex128(complex(0.0, float(P2[off % len(P2)]))) if divisor == 'pow2' else np.complex128(complex(alpha[off % len(alpha)], DY[(off + 3) % len(DY)]))
    n = int(np.prod(shape, dtype=int))
    if kind == 'arr.float':
        return seq(alpha, n, off).reshape(shape)
    if kind == 'arr.int':
        ints = [2, -1, 4, -2, 1, 8, -8, -4] if divisor == 'pow2' else [2, -1, 4, -2, 1, 3, -3, -4]
        return np.array([ints[(off + i) % 8] for i in range(n)], dtype=np.int64).reshape(shape)
    if kind == 'arr.uint8':
        return np.array([[2, 1, 4, 8, 16, 1, 2, 4][(off + i) % 8] for i in range(n)], dtype=np.uint8).reshape(shape)
    if kind == 'arr.complex':
        if divisor == 'pow2':
            return (1j * seq(P2, n, off)).reshape(shape)
        return (seq(alpha, n, off) + 1j * seq(DY, n, off + 3)).reshape(shape)
    raise ValueError(kind)


def is_cplx(v):
    return np.iscomplexobj(v.data if isinstance(v, UTPM) else v)


def as_series(v, D, nb, cplx):
    if isinstance(v, UTPM):
        s = QS.from_utpm_data(v.data, nb)
        if cplx and not np.iscomplexobj(v.data):
            s = [QS.lift(QS.tofloat(x), True) for x in s]
        return s
    return QS.from_const(v, D, nb, cplx)


def reference(opn, L, R, D, P):
    """exact result series (list of D object arrays (P,)+bshape), majorant, broadcast shape"""
    ls = L.shape if isinstance(L, UTPM) else np.shape(L)
    rs = R.shape if isinstance(R, UTPM) else np.shape(R)
    bshape = np.broadcast_shapes(ls, rs)
    nb = len(bshape)
    cplx = is_cplx(L) or is_cplx(R)
    a = as_series(L, D, nb, cplx)
    b = as_series(R, D, nb, cplx)
    if opn == 'add':
        r = QS.s_add(a, b)
        m = QS.s_add([QS.absq(x) for x in a], [QS.absq(x) for x in b])
    elif opn == 'sub':
        r = QS.s_sub(a, b)
        m = QS.s_add([QS.absq(x) for x in a], [QS.absq(x) for x in b])
    elif opn == 'mul':
        r = QS.s_mul(a, b)
        m = QS.s_mul_major(a, b)
    else:
        r = QS.s_div(a, b)
        aa = [QS.absq(x) for x in a]
        bb = [QS.absq(x) for x in b]
        m = []
        for d in range(D):
            acc = aa[d]
            for c in range(1, d + 1):
                acc = acc + bb[c] * m[d - c]
            m.append(acc / bb[0])
    full = (P,) + tuple(bshape)
    r = [np.broadcast_to(x, full) for x in r]
    m = [np.broadcast_to(x, full) for x in m]
    return r, m, bshape, cplx


def compare(res, r, m, bshape, cplx, exact, D, P):
    """returns None or a detail dict"""
    if not isinstance(res, UTPM):
        return {'reason': 'result is %s, not a UTPM' % type(res).__name__}
    want_shape = (D, P) + tuple(bshape)
    if res.data.shape != want_shape:
        return {'reason': 'shape', 'got': list(res.data.shape), 'expected': list(want_shape)}
    if cplx and not np.iscomplexobj(res.data):
        return {'reason': 'imaginary part dropped (dtype %s)' % res.data.dtype}
    if res.data.dtype == object:
        return {'reason': 'object dtype'}
    ref = QS.stack(r, cplx)
    got = res.data
    if exact:
        if not np.array_equal(got, ref):
            bad = np.argwhere(got != ref)[0]
            return {'reason': 'value (exact arithmetic expected)', 'index': [int(i) for i in bad],
                    'got': complex(got[tuple(bad)]) if cplx else float(got[tuple(bad)]),
                    'expected': complex(ref[tuple(bad)]) if cplx else float(ref[tuple(bad)])}
        return None
    maj = QS.stack(m, False)
    tol = 8 * EPS * (maj + np.abs(ref)) * D + 1e-300
    err = np.abs(got - ref)
    if not np.all(err <= tol):
        bad = np.argwhere(~(err <= tol))[0]
        return {'reason': 'value', 'index': [int(i) for i in bad],
                'got': complex(got[tuple(bad)]) if cplx else float(got[tuple(bad)]),
                'expected': complex(ref[tuple(bad)]) if cplx else float(ref[tuple(bad)])}
    return None


def build_operand(spec, D, P, off, divisor):
    kind, shape, mode = spec
    if kind == 'U':
        return UTPM(fill_utpm(D, P, tuple(shape), False, mode, off, divisor))
    if kind == 'Uc':
        return UTPM(fill_utpm(D, P, tuple(shape), True, mode, off, divisor))
    return make_const(kind, tuple(shape), off, divisor)


def run_case(case):
    """case: dict(op, form, L=(kind,shape,mode), R=..., D, P, divisor) -> (detail or None, nontrivial)"""
    opn, form, D, P = case['op'], case['form'], case['D'], case['P']
    div = case.get('divisor', False) if opn == 'div' else False
    L = build_operand(case['L'], D, P, case.get('off', 0), False)
    R = build_operand(case['R'], D, P, case.get('off', 0) + 11, div)
    try:
        r, m, bshape, cplx = reference(opn, L, R, D, P)
    except ZeroDivisionError:
        return None, False
    exact = opn in ('add', 'sub', 'mul') or div == 'pow2'
    if any(isinstance(v, (np.float32,)) for v in (L, R)):
        pass
    nontrivial = D > 1 or len(bshape) > 0
    Lc = UTPM(L.data.copy()) if isinstance(L, UTPM) else (L.copy() if isinstance(L, np.ndarray) else L)
    Rc = UTPM(R.data.copy()) if isinstance(R, UTPM) else (R.copy() if isinstance(R, np.ndarray) else R)
    try:
        if form == 'binary':
            res = OPS[opn](Lc, Rc)
        else:
            fits = tuple(bshape) == tuple(L.shape) and (np.iscomplexobj(L.data) or not cplx)
            if not fits:
                return None, False
            res = IOPS[opn](Lc, Rc)
            if res is not Lc:
                return {'reason': 'in-place operator returned a different object'}, nontrivial
    except Exception as e:
        return {'reason': 'raises', 'error': '%s: %s' % (type(e).__name__, str(e)[:160])}, nontrivial
    d = compare(res, r, m, bshape, cplx, exact, D, P)
    if d is None:
        # operands of a non-in-place operation must be untouched
        for v, c, nm in ((R, Rc, 'right'),) + (((L, Lc, 'left'),) if form == 'binary' else ()):
            a = v.data if isinstance(v, UTPM) else v
            b = c.data if isinstance(c, UTPM) else c
            if isinstance(a, np.ndarray) and not np.array_equal(a, b):
                return {'reason': '%s operand modified' % nm}, nontrivial
    return d, nontrivial


def sig_of(case, detail):
    def k(spec):
        return spec[0] + ('[%dd]' % len(spec[1]) if spec[0].startswith('arr') or spec[0].startswith('U') else '')
    ls, rs = tuple(case['L'][1]), tuple(case['R'][1])
    rel = 'same' if ls == rs else ('const_more_dims' if (not case['L'][0].startswith('U') and len(ls) > len(rs)) or
                                   (not case['R'][0].startswith('U') and len(rs) > len(ls)) else 'broadcast')
    return 'C02|%s|%s|L=%s|R=%s|%s|%s' % (case['op'], case['form'], k(case['L']), k(case['R']), rel,
                                          detail['reason'].split(' (')[0])


def shape_pairs():
    out = []
    for a in SHAPES:
        for b in SHAPES:
            try:
                np.broadcast_shapes(a, b)
                out.append((a, b))
            except ValueError:
                pass
    return out


def enumerate_cases(tier):
    cases = []
    pairs = shape_pairs()
    off = 0
    for opn in OPS:
        divs = ['pow2', 'gen'] if opn == 'div' else [False]
        for (D, P) in DPS[tier]:
            for dv in divs:
                for mode in ('dense', 'sparse'):
                    if mode == 'sparse' and D == 1:
                        continue
                    # UTPM op UTPM (real/complex mixes)
                    for (sa, sb) in pairs:
                        for lk, rk in (('U', 'U'), ('U', 'Uc'), ('Uc', 'U'), ('Uc', 'Uc')):
                            if (lk, rk) != ('U', 'U') and (mode == 'sparse' or len(sa) + len(sb) > 3):
                                continue
                            for form in ('binary', 'inplace'):
                                off += 1
                                cases.append({'op': opn, 'form': form, 'L': [lk, list(sa), mode], 'R': [rk, list(sb), mode], 'D': D, 'P': P,
                                              'divisor': dv, 'off': off % 13})
                    # UTPM op array constant and array constant op UTPM
                    if mode == 'dense':
                        for (sa, sb) in pairs:
                            for ak in ARRAY_KINDS:
                                for uk in ('U', 'Uc') if len(sa) + len(sb) <= 2 else ('U',):
                                    off += 1
                                    cases.append({'op': opn, 'form': 'binary', 'L': [uk, list(sa), mode], 'R': [ak, list(sb), mode], 'D': D, 'P': P, 'divisor': dv, 'off': off % 13})
                                    cases.append({'op': opn, 'form': 'binary', 'L': [ak, list(sa), mode], 'R': [uk, list(sb), mode], 'D': D, 'P': P, 'divisor': dv, 'off': off % 13})
                                    cases.append({'op': opn, 'form': 'inplace', 'L': [uk, list(sa), mode], 'R': [ak, list(sb), mode], 'D': D, 'P': P, 'divisor': dv, 'off': off % 13})
                        for s in SHAPES:
                            for sk in SCALAR_KINDS:
                                for uk in ('U', 'Uc'):
                                    off += 1
                                    cases.append({'op': opn, 'form': 'binary', 'L': [uk, list(s), mode], 'R': [sk, [], mode], 'D': D, 'P': P, 'divisor': dv, 'off': off % 13})
                                    cases.append({'op': opn, 'form': 'binary', 'L': [sk, [], mode], 'R': [uk, list(s), mode], 'D': D, 'P': P, 'divisor': dv, 'off': off % 13})
                                    cases.append({'op': opn, 'form': 'inplace', 'L': [uk, list(s), mode], 'R': [sk, [], mode], 'D': D, 'P': P, 'divisor': dv, 'off': off % 13})
    return cases


CH = 400


def units(tier, seed):
    cases = enumerate_cases(tier)
    us = [{'kind': 'cases', 'lo': i, 'hi': min(i + CH, len(cases)), 'tier': tier, 'seed': seed} for i in range(0, len(cases), CH)]
    for D in ([1, 2] if tier == 'quick' else [1, 2, 3]):
        for opn in ('mul', 'div', 'add', 'sub'):
            us.append({'kind': 'alltuples', 'op': opn, 'D': D, 'tier': tier, 'seed': seed})
    for kk in ['int', 'float', 'np.int64', 'np.float64', 'np.float32']:
        us.append({'kind': 'pow', 'ekind': kk, 'tier': tier, 'seed': seed})
    us.append({'kind': 'rpow', 'tier': tier, 'seed': seed})
    us.append({'kind': 'alias', 'tier': tier, 'seed': seed})
    us.append({'kind': 'alias_binary', 'tier': tier, 'seed': seed})
    us.append({'kind': 'highD', 'tier': tier, 'seed': seed})
    return us


_CASES = {}


def run_alltuples(u, out):
    """scalar shape, P=1: ALL coefficient tuples from the dyadic alphabet for both operands, packed along an element axis"""
    D, opn = u['D'], u['op']
    A = [1.0, -0.5, 2.0, 0.75, -1.5] if D >= 2 else DY
    A0 = [1.0, -0.5, 2.0, 0.25, -4.0] if opn == 'div' else A        # divisor base values: powers of two
    tl = list(itertools.product(A, repeat=D))
    tr = list(itertools.product(A0, *([A] * (D - 1)))) if D > 1 else [(v,) for v in A0]
    X = np.array([a for a in tl for _ in tr]).T.reshape(D, 1, -1)
    Y = np.array([b for _ in tl for b in tr]).T.reshape(D, 1, -1)
    res = OPS[opn](UTPM(X.copy()), UTPM(Y.copy()))
    # exact reference with integer arithmetic on scaled values would be heavy in Fractions: use Fractions on the unique
    # pairs through vectorised object arrays
    a = QS.from_utpm_data(X)
    b = QS.from_utpm_data(Y)
    r = {'mul': QS.s_mul, 'div': QS.s_div, 'add': QS.s_add, 'sub': QS.s_sub}[opn](a, b)
    ref = QS.stack(r)
    out['evals'] += X.shape[2]
    out['nontrivial'] += X.shape[2] if D > 1 else 0
    if res.data.shape != ref.shape or not np.array_equal(res.data, ref):
        bad = np.argwhere(res.data != ref)[0] if res.data.shape == ref.shape else [-1]
        k = int(bad[-1])
        out['fails'].append({'sig': 'C02|%s|alltuples|D=%d' % (opn, D), 'case': dict(u),
                             'detail': {'x': X[:, 0, k].tolist(), 'y': Y[:, 0, k].tolist(), 'got': res.data[:, 0, k].tolist(),
                                        'expected': ref[:, 0, k].tolist()}})
    if not out['samples']:
        out['samples'].append({'all_tuples': True, 'op': opn, 'D': D, 'pairs': int(X.shape[2]), 'one_pair': [X[:, 0, 7].tolist(), Y[:, 0, 7].tolist()]})


# every exponent up to 20 (all bit patterns of 4 bits and some of 5: square-and-multiply schemes), a few larger ones
POW_EXPONENTS = list(range(0, 21)) + [24, 31, 32, 33] + list(range(-1, -9, -1))


def run_pow(u, out):
    ek = u['ekind']
    conv = {'int': int, 'float': float, 'np.int64': np.int64, 'np.float64': np.float64, 'np.float32': np.float32}[ek]
    for k in POW_EXPONENTS:
        for (D, P) in DPS[u['tier']]:
            for shape in [(), (2,), (2, 3)]:
                for cplx in (False, True):
                    x = fill_utpm(D, P, shape, cplx, 'dense', k + D, 'pow2' if k < 0 else False)
                    case = {'kind': 'pow', 'ekind': ek, 'k': k, 'D': D, 'P': P, 'shape': list(shape), 'cplx': cplx, 'tier': u['tier']}
                    out['evals'] += 1
                    out['nontrivial'] += 1 if (D > 1 and k not in (0, 1)) else 0
                    try:
                        res = UTPM(x.copy()) ** conv(k)
                    except Exception as e:
                        out['fails'].append({'sig': 'C02|pow|%s|k=%d|raises' % (ek, k), 'case': case, 'detail': {'error': str(e)[:200]}})
                        continue
                    a = QS.from_utpm_data(x)
                    r = QS.s_pow_int(a, abs(k))
                    if k < 0:
                        one = [r[0] * 0 + 1] + [r[0] * 0 for _ in range(D - 1)]
                        r = QS.s_div(one, r)
                    ref = QS.stack(r, cplx)
                    if res.data.shape != ref.shape:
                        out['fails'].append({'sig': 'C02|pow|%s|k=%d|shape' % (ek, k), 'case': case, 'detail': {'got': list(res.data.shape)}})
                        continue
                    if cplx and not np.iscomplexobj(res.data):
                        out['fails'].append({'sig': 'C02|pow|%s|k=%d|imaginary part dropped' % (ek, k), 'case': case, 'detail': {}})
                        continue
                    maj = QS.stack(QS.s_pow_int([QS.absq(v) for v in a], abs(k)))
                    if k < 0:
                        maj = np.abs(ref) * 0 + np.max(np.abs(ref)) * 4
                    err = np.abs(res.data - ref)
                    tol = 64 * EPS * (maj + np.abs(ref)) * (1 + abs(k)) * D
                    if k >= 0 and not cplx:
                        ok = np.array_equal(res.data, ref) or np.all(err <= tol)
                    else:
                        ok = bool(np.all(err <= tol))
                    if not ok:
                        bad = np.argwhere(~(err <= tol))[0]
                        out['fails'].append({'sig': 'C02|pow|%s|k=%d|value|%s' % (ek, k, 'complex' if cplx else 'real'), 'case': case,
                                             'detail': {'index': [int(i) for i in bad], 'got': complex(res.data[tuple(bad)]), 'expected': complex(ref[tuple(bad)])}})


def run_rpow(u, out):
    """scalar ** polynomial for every scalar kind: against the defining series exp(x log r) evaluated with exact rational
    polynomial arithmetic in x and 30 terms of the exponential series (log r in double precision, like the library), and
    the identity r**x * r**(-x) = 1"""
    import math
    from fractions import Fraction
    bases = [('int 2', 2), ('float 0.5', 0.5), ('float 3.0', 3.0), ('np.float64 1.5', np.float64(1.5)), ('int 10', 10), ('np.int64 3', np.int64(3))]
    for bn, r in bases:
        lr = Fraction(math.log(float(r)))
        for (D, P) in DPS[u['tier']] + [(6, 1)]:
            for shape in [(), (2,), (2, 3)]:
                x = fill_utpm(D, P, shape, False, 'dense', D + 1, False) * 0.5
                case = {'kind': 'rpow', 'base': bn, 'D': D, 'P': P, 'shape': list(shape), 'tier': u['tier']}
                out['evals'] += 1
                out['nontrivial'] += 1 if D > 2 else 0
                try:
                    res = (r ** UTPM(x.copy())).data
                    inv = (r ** UTPM(-x.copy())).data
                except Exception as e:
                    out['fails'].append({'sig': 'C02|rpow|%s|raises' % bn, 'case': case, 'detail': {'error': str(e)[:200]}})
                    continue
                a = QS.from_utpm_data(x)                       # list of D exact coefficient arrays
                z = [c * lr for c in a]                          # z = x log r
                # exp(z) = exp(z_0) * exp(z - z_0): the second factor is a polynomial identity in the nilpotent part
                nil = [z[0] * 0] + z[1:]
                term = [z[0] * 0 + 1] + [z[0] * 0 for _ in range(D - 1)]
                tot = [t for t in term]
                for k in range(1, D + 1):
                    term = [t / k for t in QS.s_mul(term, nil)]
                    tot = [p_ + q_ for p_, q_ in zip(tot, term)]
                e0 = np.exp(np.array(QS.stack([z[0]]), dtype=float)[0])
                ref = np.array(QS.stack(tot), dtype=float) * e0
                if res.shape != ref.shape:
                    out['fails'].append({'sig': 'C02|rpow|%s|shape' % bn, 'case': case, 'detail': {'got': list(res.shape)}})
                    continue
                err = np.abs(res - ref) / (np.abs(ref) + np.abs(e0) * 1.0)
                one = UTPM(res) * UTPM(inv)
                id_err = np.abs(one.data - np.concatenate([np.ones((1,) + one.data.shape[1:]), np.zeros((D - 1,) + one.data.shape[1:])]))
                if not np.all(err <= 1e-12):
                    d = int(np.argmax(err.reshape(D, -1).max(axis=1) > 1e-12))
                    out['fails'].append({'sig': 'C02|rpow|%s|value|first_bad_order=%d' % (bn, d), 'case': case, 'detail': {'max_scaled_error': float(err.max())}})
                elif not np.all(id_err <= 1e-11 * (1 + np.abs(res).max() * np.abs(inv).max())):
                    out['fails'].append({'sig': 'C02|rpow|%s|r**x * r**(-x) != 1' % bn, 'case': case, 'detail': {'max_error': float(id_err.max())}})


def run_rpow_complex(u, out):
    """complex scalar ** real polynomial and real scalar ** complex polynomial: the result is complex and equals the
    exponential series of x log r (evaluated here in complex double arithmetic, term by term)"""
    import cmath
    cases = [('complex 1.5+2j', 1.5 + 2j, False), ('np.complex128 0.5-1j', np.complex128(0.5 - 1j), False), ('float 2.0 ** complex x', 2.0, True),
             ('complex 1-1j ** complex x', 1 - 1j, True)]
    for bn, r, xc in cases:
        lr = cmath.log(complex(r))
        for (D, P) in DPS[u['tier']]:
            for shape in [(), (2,), (2, 3)]:
                x = fill_utpm(D, P, shape, xc, 'dense', D + 2, False) * 0.5
                case = {'kind': 'rpow_complex', 'base': bn, 'D': D, 'P': P, 'shape': list(shape), 'tier': u['tier']}
                out['evals'] += 1
                out['nontrivial'] += 1
                try:
                    res = (r ** UTPM(x.copy())).data
                except Exception as e:
                    out['fails'].append({'sig': 'C02|rpow|%s|raises' % bn, 'case': case, 'detail': {'error': str(e)[:200]}})
                    continue
                z = x.astype(complex) * lr
                nil = z.copy()
                nil[0] = 0
                term = np.zeros_like(z)
                term[0] = 1.0
                tot = term.copy()
                for k in range(1, D + 1):
                    nxt = np.zeros_like(z)
                    for d in range(D):
                        for c_ in range(d + 1):
                            nxt[d] += term[c_] * nil[d - c_]
                    term = nxt / k
                    tot = tot + term
                ref = tot * np.exp(z[0])
                if not np.iscomplexobj(res):
                    out['fails'].append({'sig': 'C02|rpow|%s|imaginary part dropped' % bn, 'case': case, 'detail': {'dtype': str(res.dtype)}})
                    continue
                err = np.abs(res - ref) / (np.abs(ref) + np.abs(np.exp(z[0])))
                if res.shape != ref.shape or not np.all(err <= 1e-12):
                    out['fails'].append({'sig': 'C02|rpow|%s|value' % bn, 'case': case, 'detail': {'max_scaled_error': float(np.max(err)) if res.shape == ref.shape else -1}})


def run_xpowy_complex(u, out):
    """polynomial ** polynomial with a COMPLEX base: x ** 2 (exponent a constant polynomial) equals x * x, x ** y * x ** (-y) = 1 and
    x ** (y1 + y2) = x ** y1 * x ** y2 - identities of the complex power with the principal logarithm, for base points in all
    four quadrants"""
    for (D, P) in DPS[u['tier']]:
        for shape in [(), (2,), (2, 2)]:
            x = fill_utpm(D, P, shape, True, 'dense', D + 3, False)
            n = int(np.prod(shape, dtype=int)) if shape else 1
            quad = np.array([(1.5 + 0.5j), (-1.25 + 0.75j), (-0.5 - 1.5j), (2.0 - 0.25j)])
            x[0] = np.resize(quad, (P * n,)).reshape((P,) + shape)
            y = fill_utpm(D, P, shape, False, 'dense', D + 5, False) * 0.5
            case = {'kind': 'xpowy_complex', 'D': D, 'P': P, 'shape': list(shape), 'tier': u['tier']}
            out['evals'] += 1
            out['nontrivial'] += 1
            try:
                X = UTPM(x.copy())
                two = UTPM(np.concatenate([np.full((1, P) + shape, 2.0), np.zeros((D - 1, P) + shape)]))
                sq = (X ** two).data
                ref = (X * X).data
                Y = UTPM(y.copy())
                one = ((X ** Y) * (X ** (-Y))).data
                lhs = (X ** (Y + two)).data
                rhs = ((X ** Y) * (X * X)).data
            except Exception as e:
                out['fails'].append({'sig': 'C02|x**y complex base|raises', 'case': case, 'detail': {'error': str(e)[:200]}})
                continue
            e1 = np.abs(sq - ref) / (1.0 + np.abs(ref))
            ident = np.zeros_like(one)
            ident[0] = 1.0
            e2 = np.abs(one - ident)
            e3 = np.abs(lhs - rhs) / (1.0 + np.abs(rhs))
            for nm, e in (('x**2 != x*x', e1), ('x**y * x**(-y) != 1', e2), ('x**(y+2) != x**y * x*x', e3)):
                if not np.iscomplexobj(sq) or not np.all(e <= 1e-11):
                    out['fails'].append({'sig': 'C02|x**y complex base|%s' % nm, 'case': case, 'detail': {'max_error': float(np.max(e))}})
                    break


ALIAS_FORMS = ['same', 'reversed', 'transposed', 'overlap', 'row0', 'element']


def run_alias(u, out):
    """in-place forms with the right operand aliased to (a view of) the left one must equal the binary expression"""
    for opn in OPS:
        for (D, P) in DPS[u['tier']]:
            for cplx in (False, True):
                for form in ALIAS_FORMS:
                    for dv in (['pow2', 'gen'] if opn == 'div' else [False]):
                        shape = (2, 2) if form == 'transposed' else (4,)
                        base = fill_utpm(D, P, shape, cplx, 'dense', 3 + D, dv)
                        x = UTPM(base.copy())
                        if form == 'same':
                            L, R = x, x
                        elif form == 'reversed':
                            L, R = x, x[::-1]
                        elif form == 'transposed':
                            L, R = x, x.T
                        elif form == 'overlap':
                            L, R = x[0:3], x[1:4]
                        elif form == 'row0':
                            x = UTPM(fill_utpm(D, P, (3, 2), cplx, 'dense', 5 + D, dv))
                            L, R = x, x[0]                  # lower-rank view of the left operand (broadcast)
                        else:
                            x = UTPM(fill_utpm(D, P, (2, 3), cplx, 'dense', 6 + D, dv))
                            L, R = x, x[1, 2]
                        Lc, Rc = UTPM(L.data.copy()), UTPM(R.data.copy())
                        case = {'kind': 'alias', 'op': opn, 'form': form, 'D': D, 'P': P, 'cplx': cplx, 'divisor': dv, 'tier': u['tier']}
                        out['evals'] += 1
                        out['nontrivial'] += 1 if D > 1 else 0
                        r, m, bshape, cx = reference(opn, Lc, Rc, D, P)
                        try:
                            res = IOPS[opn](L, R)
                        except Exception as e:
                            out['fails'].append({'sig': 'C02|%s|inplace-aliased|%s|raises' % (opn, form), 'case': case, 'detail': {'error': str(e)[:200]}})
                            continue
                        d = compare(res, r, m, bshape, cx, opn != 'div' or dv == 'pow2', D, P)
                        if d is not None:
                            out['fails'].append({'sig': 'C02|%s|inplace-aliased|%s|%s' % (opn, form, d['reason'].split(' (')[0]), 'case': case, 'detail': d})


def run_alias_binary(u, out):
    """binary (not in-place) operators whose operands are DIFFERENT VIEWS OF ONE BUFFER (same start address, other strides;
    reversed; overlapping) must give what independent copies give"""
    for opn in OPS:
        for (D, P) in DPS[u['tier']]:
            for cplx in (False, True):
                for form in ('x,x.T', 'x.T,x', 'x,x', 'x,x[::-1]', 'v[::2],v[:3]', 'v[:3],v[::2]', 'c,c.transpose-like'):
                    if form in ('x,x.T', 'x.T,x'):
                        x = UTPM(fill_utpm(D, P, (3, 3), cplx, 'dense', 2 + D, 'gen' if opn == 'div' else False))
                        L, R = (x, x.T) if form == 'x,x.T' else (x.T, x)
                    elif form == 'x,x':
                        x = UTPM(fill_utpm(D, P, (2, 3), cplx, 'dense', 4 + D, 'gen' if opn == 'div' else False))
                        L, R = x, x
                    elif form == 'x,x[::-1]':
                        x = UTPM(fill_utpm(D, P, (4,), cplx, 'dense', 6 + D, 'gen' if opn == 'div' else False))
                        L, R = x, x[::-1]
                    elif form in ('v[::2],v[:3]', 'v[:3],v[::2]'):
                        v = UTPM(fill_utpm(D, P, (5,), cplx, 'dense', 8 + D, 'gen' if opn == 'div' else False))
                        L, R = (v[::2], v[:3]) if form.startswith('v[::2]') else (v[:3], v[::2])
                    else:
                        c3 = UTPM(fill_utpm(D, P, (2, 2, 2), cplx, 'dense', 9 + D, 'gen' if opn == 'div' else False))
                        L, R = c3, UTPM(np.swapaxes(c3.data, 2, 4))
                    Lc, Rc = UTPM(L.data.copy()), UTPM(R.data.copy())
                    case = {'kind': 'alias_binary', 'op': opn, 'form': form, 'D': D, 'P': P, 'cplx': cplx, 'tier': u['tier']}
                    out['evals'] += 1
                    out['nontrivial'] += 1 if D > 1 else 0
                    try:
                        r, m, bshape, cx = reference(opn, Lc, Rc, D, P)
                        res = OPS[opn](L, R)
                    except Exception as e:
                        out['fails'].append({'sig': 'C02|%s|binary-aliased|%s|raises' % (opn, form), 'case': case, 'detail': {'error': str(e)[:200]}})
                        continue
                    d = compare(res, r, m, bshape, cx, opn != 'div', D, P)
                    if d is not None:
                        out['fails'].append({'sig': 'C02|%s|binary-aliased|%s|%s' % (opn, form, d['reason'].split(' (')[0]), 'case': case, 'detail': d})
                    elif not (np.array_equal(L.data, Lc.data) and np.array_equal(R.data, Rc.data)):
                        out['fails'].append({'sig': 'C02|%s|binary-aliased|%s|operand modified' % (opn, form), 'case': case, 'detail': {}})


def run_highD(u, out):
    """degrees far above the test-suite's (kernels may switch algorithm with D): exact Cauchy product / quotient"""
    for D in ([16, 17, 33] if u['tier'] == 'quick' else [16, 17, 24, 33, 40]):
        for opn in ('mul', 'div', 'add', 'sub'):
            for shape in [(), (2,)]:
                P = 2
                n = D * P * int(np.prod(shape, dtype=int))
                X = np.array([[1.0, -0.5, 0.25, 0.5, -1.0, 0.125][(3 * i + i // 7) % 6] for i in range(n)]).reshape((D, P) + shape)
                Y = np.array([[0.5, 1.0, -0.25, -0.5, 0.125, 1.0][(5 * i + i // 5) % 6] for i in range(n)]).reshape((D, P) + shape)
                if opn == 'div':
                    Y[0] = 2.0 ** ((np.arange(Y[0].size) % 3) - 1).reshape(Y[0].shape)
                case = {'kind': 'highD', 'op': opn, 'D': D, 'shape': list(shape), 'tier': u['tier']}
                out['evals'] += 1
                out['nontrivial'] += 1
                r, m, bshape, cx = reference(opn, UTPM(X.copy()), UTPM(Y.copy()), D, P)
                for form in ('binary', 'inplace'):
                    try:
                        res = OPS[opn](UTPM(X.copy()), UTPM(Y.copy())) if form == 'binary' else IOPS[opn](UTPM(X.copy()), UTPM(Y.copy()))
                    except Exception as e:
                        out['fails'].append({'sig': 'C02|%s|%s|high degree|raises' % (opn, form), 'case': dict(case, form=form), 'detail': {'error': str(e)[:200]}})
                        continue
                    d = compare(res, r, m, bshape, cx, opn != 'div', D, P)
                    if d is not None:
                        out['fails'].append({'sig': 'C02|%s|%s|high degree D>=16|%s' % (opn, form, d['reason'].split(' (')[0]), 'case': dict(case, form=form), 'detail': d})


def run_unit(u):
    out = {'evals': 0, 'nontrivial': 0, 'fails': [], 'samples': [], 'counters': {}}
    if u['kind'] == 'highD':
        run_highD(u, out)
        return out
    if u['kind'] == 'alias_binary':
        run_alias_binary(u, out)
        return out
    if u['kind'] == 'alltuples':
        run_alltuples(u, out)
        return out
    if u['kind'] == 'rpow':
        run_rpow(u, out)
        run_rpow_complex(u, out)
        run_xpowy_complex(u, out)
        return out
    if u['kind'] == 'pow':
        run_pow(u, out)
        return out
    if u['kind'] == 'alias':
        run_alias(u, out)
        return out
    key = u['tier']
    if key not in _CASES:
        _CASES[key] = enumerate_cases(u['tier'])
    for case in _CASES[key][u['lo']:u['hi']]:
        detail, nontriv = run_case(case)
        out['evals'] += 1
        out['nontrivial'] += 1 if nontriv else 0
        if detail is not None:
            out['fails'].append({'sig': sig_of(case, detail), 'case': dict(case, kind='cases'), 'detail': detail})
    c = _CASES[key][u['lo']]
    out['samples'] = [dict(c)]
    return out


def replay(case):
    out = {'evals': 0, 'nontrivial': 0, 'fails': [], 'samples': [], 'counters': {}}
    if case.get('kind') == 'alltuples':
        run_alltuples(case, out)
        return out['fails']
    if case.get('kind') == 'xpowy_complex':
        run_xpowy_complex({'tier': case.get('tier', 'quick')}, out)
        return [f for f in out['fails'] if all(f['case'].get(k) == case.get(k) for k in ('D', 'P', 'shape'))]
    if case.get('kind') == 'rpow_complex':
        run_rpow_complex({'tier': case.get('tier', 'quick')}, out)
        return [f for f in out['fails'] if all(f['case'].get(k) == case.get(k) for k in ('base', 'D', 'P', 'shape'))]
    if case.get('kind') == 'rpow':
        run_rpow({'tier': case.get('tier', 'quick')}, out)
        return [f for f in out['fails'] if all(f['case'].get(k) == case.get(k) for k in ('base', 'D', 'P', 'shape'))]
    if case.get('kind') == 'pow':
        run_pow({'ekind': case['ekind'], 'tier': case.get('tier', 'quick')}, out)
        return [f for f in out['fails'] if f['case']['k'] == case['k'] and f['case']['D'] == case['D'] and f['case']['P'] == case['P']
                and f['case']['shape'] == case['shape'] and f['case']['cplx'] == case['cplx']]
    if case.get('kind') == 'highD':
        run_highD({'tier': case.get('tier', 'quick')}, out)
        return [f for f in out['fails'] if all(f['case'].get(k) == case.get(k) for k in ('op', 'D', 'shape', 'form'))]
    if case.get('kind') == 'alias_binary':
        run_alias_binary({'tier': case.get('tier', 'quick')}, out)
        return [f for f in out['fails'] if all(f['case'][k] == case[k] for k in ('op', 'form', 'D', 'P', 'cplx'))]
    if case.get('kind') == 'alias':
        run_alias({'tier': case.get('tier', 'quick')}, out)
        return [f for f in out['fails'] if all(f['case'][k] == case[k] for k in ('op', 'form', 'D', 'P', 'cplx', 'divisor'))]
    detail, _ = run_case(case)
    return [{'sig': sig_of(case, detail), 'detail': detail}] if detail is not None else []
