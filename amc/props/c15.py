"""C15  Exact-interpolation coefficients reconstruct mixed partial derivatives.

Space: ALL (N, d), N >= 1, d >= 1 with n = binomial(N+d-1, d) <= bound (quick 70, thorough 252) for the
interpolation identity, and all (N, d) with N <= 8, d <= 10, n <= 20000 for the multi-index enumeration.
For each (N, d): generate_multi_indices must list every multi-index of degree d exactly once (compared with an
independent stars-and-bars generator); for ALL pairs (i, alpha): sum_j Gamma[i,j] ray_j^alpha == delta(i,alpha),
evaluated exactly (Fraction(Gamma[i,j]) times integer powers of the integer rays).  For n <= 56 the matrix
ray_j^alpha is also inverted exactly, giving the unique exact Gamma without formula 13.13, and the float Gamma is
compared entry-wise.  Each (N,d) is queried in a short call history (a call with a seed matrix S, then default
calls, twice) so that anything remembered between calls shows.
"""
import itertools
from fractions import Fraction
from math import comb

import numpy as np

from .. import env
import algopy
from algopy import exact_interpolation as EI

ID = 'C15'
RULE = ('units = all (N,d) within the size bound; per unit all n^2 (i,alpha) identity pairs are evaluated in exact rational '
        'arithmetic (evaluations) ; non-trivial = (i,alpha) pairs with at least two non-zero terms in the sum; enumeration '
        'units compare the full multi-index list')
ASSUMPTIONS = ['Fraction arithmetic on the float Gamma entries; tolerance max(1e-12, 1e-14*5^d) x sum_j |Gamma[i,j]| ray_j^alpha (gamma() is an '
               'alternating float sum and loses digits as d grows; measured worst is reported)']
BOUND = {'quick': 70, 'thorough': 252}


def tol(d):
    """gamma() is an alternating float sum; its rounding error grows by about 4x per degree (measured: 6e-16 at d=4,
    3e-14 at d=6, 4e-12 at d=10, 2e-10 at d=13); a wrong binomial, sign or exponent in the formula is O(1e-3..1)"""
    return max(1e-12, 1e-14 * 5.0 ** d)


def bounds(tier):
    return {'max_n_identity': BOUND[tier], 'max_n_exact_inverse': 56, 'enumeration': 'N<=8, d<=10, n<=20000'}


def pairs(bound):
    out = []
    for N in range(1, 12):
        for d in range(1, 14):
            if comb(N + d - 1, d) <= bound:
                out.append((N, d))
    return out


def units(tier, seed):
    us = [{'kind': 'identity', 'N': N, 'd': d, 'tier': tier, 'seed': seed} for (N, d) in pairs(BOUND[tier])]
    en = [(N, d) for N in range(1, 9) for d in range(1, 11) if comb(N + d - 1, d) <= 20000]
    for i in range(0, len(en), 8):
        us.append({'kind': 'enum', 'pairs': en[i:i + 8], 'tier': tier, 'seed': seed})
    us.append({'kind': 'consumer', 'tier': tier, 'seed': seed})
    us.append({'kind': 'consumer_programs', 'tier': tier, 'seed': seed})
    return us


def stars_and_bars(N, d):
    """independent generator of all multi-indices of degree d in N variables"""
    out = set()
    for bars in itertools.combinations(range(N + d - 1), N - 1):
        prev = -1
        idx = []
        for b in bars + (N + d - 1,):
            idx.append(b - prev - 1)
            prev = b
        out.add(tuple(idx))
    return out


def check_enum(N, d, out, case):
    J = EI.generate_multi_indices(N, d)
    out['evals'] += 1
    got = [tuple(int(v) for v in row) for row in np.atleast_2d(J)]
    want = stars_and_bars(N, d)
    out['nontrivial'] += 1 if len(want) > 1 else 0
    if len(got) != len(want) or set(got) != want or len(set(got)) != len(got):
        out['fails'].append({'sig': 'C15|multi-indices|N=%d|d=%d' % (N, d), 'case': case,
                             'detail': {'listed': len(got), 'distinct': len(set(got)), 'expected': len(want),
                                        'missing': [list(m) for m in sorted(want - set(got))[:5]]}})
        return None
    return got


def exact_inverse(M):
    n = len(M)
    A = [row[:] + [Fraction(int(i == k)) for k in range(n)] for i, row in enumerate(M)]
    for c in range(n):
        p = next(r for r in range(c, n) if A[r][c] != 0)
        A[c], A[p] = A[p], A[c]
        inv = 1 / A[c][c]
        A[c] = [v * inv for v in A[c]]
        for r in range(n):
            if r != c and A[r][c] != 0:
                f = A[r][c]
                A[r] = [a - f * b for a, b in zip(A[r], A[c])]
    return [row[n:] for row in A]


def run_identity(u, out):
    N, d = u['N'], u['d']
    case = dict(u)
    J = check_enum(N, d, out, case)
    if J is None:
        return
    n = len(J)
    # call history: seeded call, default call, default call
    S = np.eye(N)[::-1] * 2.0 + (np.eye(N) if N > 1 else 0)
    try:
        G_s, rays_s = EI.generate_Gamma_and_rays(N, d, S)
        G1, rays1 = EI.generate_Gamma_and_rays(N, d)
        G2, rays2 = EI.generate_Gamma_and_rays(N, d)
    except Exception as e:
        out['fails'].append({'sig': 'C15|raises|N=%d|d=%d' % (N, d), 'case': case, 'detail': {'error': str(e)[:200]}})
        return
    Jarr = np.array(J, dtype=float)
    if not np.array_equal(rays_s, Jarr.dot(S)):
        out['fails'].append({'sig': 'C15|rays-with-seed|N=%d|d=%d' % (N, d), 'case': case, 'detail': {}})
    for nm, (G, rays) in (('first-default-call', (G1, rays1)), ('second-default-call', (G2, rays2))):
        if np.shape(G) != (n, n) or np.shape(rays) != (n, N):
            out['fails'].append({'sig': 'C15|shape|%s|N=%d|d=%d' % (nm, N, d), 'case': case, 'detail': {'Gamma': list(np.shape(G)), 'rays': list(np.shape(rays))}})
            return
        if not np.array_equal(rays, Jarr):
            out['fails'].append({'sig': 'C15|rays|%s|N=%d|d=%d' % (nm, N, d), 'case': case, 'detail': {}})
            return
    if not np.array_equal(G1, G2) or not np.array_equal(G1, G_s):
        out['fails'].append({'sig': 'C15|Gamma-depends-on-call-history|N=%d|d=%d' % (N, d), 'case': case, 'detail': {}})
    G = G2
    # M[j][alpha] = ray_j ^ alpha (integers)
    M = [[1] * n for _ in range(n)]
    for j in range(n):
        for a in range(n):
            v = 1
            for rj, ak in zip(J[j], J[a]):
                if ak:
                    v *= rj ** ak
            M[j][a] = v
    Gq = [[Fraction(float(G[i, j])) for j in range(n)] for i in range(n)]
    worst = 0.0
    bad = None
    for i in range(n):
        for a in range(n):
            s = Fraction(0)
            m = Fraction(0)
            terms = 0
            for j in range(n):
                if M[j][a] and Gq[i][j]:
                    t = Gq[i][j] * M[j][a]
                    s += t
                    m += abs(t)
                    terms += 1
            out['evals'] += 1
            if terms >= 2:
                out['nontrivial'] += 1
            err = abs(s - (1 if i == a else 0))
            scale = float(m) + 1.0
            e = float(err) / scale
            if e > worst:
                worst = e
                if e > tol(d):
                    bad = (i, a, float(s))
    out['maxima']['scaled_identity_error'] = worst
    if bad is not None:
        i, a, s = bad
        out['fails'].append({'sig': 'C15|identity|N=%d|d=%d' % (N, d), 'case': case,
                             'detail': {'i': list(J[i]), 'alpha': list(J[a]), 'sum': s, 'expected': int(i == a), 'scaled_error': worst}})
    if n <= 56 and bad is None:
        Minv = exact_inverse([[Fraction(v) for v in row] for row in M])      # Gamma = M^{-1} transposed appropriately
        # sum_j Gamma[i][j] M[j][a] = delta  =>  Gamma = M^{-1}
        w2 = 0.0
        for i in range(n):
            rowscale = max(abs(float(v)) for v in Minv[i]) + 1e-300
            for j in range(n):
                e = abs(float(Gq[i][j] - Minv[i][j])) / rowscale
                w2 = max(w2, e)
        out['maxima']['entrywise_error_vs_exact_inverse'] = w2
        if w2 > 100 * tol(d):
            out['fails'].append({'sig': 'C15|Gamma-vs-exact-inverse|N=%d|d=%d' % (N, d), 'case': case, 'detail': {'scaled_error': w2}})
    out['samples'] = [{'N': N, 'd': d, 'n': n, 'identity_pairs': n * n, 'first_multi_indices': [list(j) for j in J[:4]]}]


def run_consumer(u, out):
    """the consumers init_tensor / extract_tensor: Gamma times the d-th Taylor coefficients along the rays is the vector of
    all d-th order partials divided by the multi-index factorial - for the smooth, non-polynomial f(x) = x0 / x1 (closed
    form), base points of every numeric kind"""
    from algopy import UTPM
    base = [3, 2]
    kinds = {'float64': np.float64, 'int64': np.int64, 'int32': np.int32, 'int16': np.int16, 'uint8': np.uint8, 'list': None}
    for d in (1, 2, 3, 4):
        J = EI.generate_multi_indices(2, d)
        x0, x1 = 3.0, 2.0
        exp = []
        for (a, b) in np.atleast_2d(J):
            a, b = int(a), int(b)
            if a == 0:
                exp.append(x0 * (-1.0) ** b * x1 ** (-(b + 1)))
            elif a == 1:
                exp.append((-1.0) ** b * x1 ** (-(b + 1)))
            else:
                exp.append(0.0)
        exp = np.array(exp)
        for kn, dt in kinds.items():
            x = list(base) if dt is None else np.array(base, dtype=dt)
            case = {'kind': 'consumer', 'd': d, 'x_kind': kn}
            out['evals'] += 1
            out['nontrivial'] += 1
            try:
                X = UTPM.init_tensor(d, x)
                y = X[0] / X[1]
                got = UTPM.extract_tensor(2, y, as_full_matrix=False)
            except Exception as ex:
                out['fails'].append({'sig': 'C15|consumer|raises|x %s' % kn, 'case': case, 'detail': {'error': str(ex)[:200]}})
                continue
            if np.shape(got) != exp.shape or not np.all(np.abs(np.asarray(got, dtype=float) - exp) <= 1e-9 * (1 + np.abs(exp))):
                out['fails'].append({'sig': 'C15|consumer|value|x %s' % kn, 'case': case, 'detail': {'got': np.asarray(got).tolist(), 'expected': exp.tolist()}})


def run_consumer_ridge(u, out):
    """ridge functions f(x) = g(c.x) for g = tan, arctan, exp, log1p: every d-th order partial derivative divided by the multi-index
    factorial is c^alpha g^(d)(c.x0) / alpha!  (g^(d) from mpmath) - up to d = 6 for N = 2 and with more than 8 rays for N = 3, 4"""
    from algopy import UTPM
    import algopy
    from math import factorial
    from .. import env
    mp = env.load_mpmath()
    gs = [('tan', algopy.tan, mp.tan), ('arctan', algopy.arctan, mp.atan), ('exp', algopy.exp, mp.exp), ('log1p', algopy.log1p, mp.log1p)]
    c_all = np.array([0.5, -0.25, 0.75, 0.3])
    x_all = np.array([0.4, 0.2, -0.3, 0.1])
    for (N, d) in [(2, 3), (2, 5), (2, 6), (3, 3), (3, 4), (4, 3)]:
        cvec_, x0 = c_all[:N], x_all[:N]
        uu = float(cvec_.dot(x0))
        J = np.atleast_2d(EI.generate_multi_indices(N, d))
        for gn, g, gm in gs:
            old = mp.mp.dps
            mp.mp.dps = 60
            try:
                gd = float(mp.diff(gm, mp.mpf(uu), d))
            finally:
                mp.mp.dps = old
            exp = np.array([gd * np.prod(cvec_ ** row) / np.prod([factorial(int(k)) for k in row]) for row in J])
            case = {'kind': 'consumer_ridge', 'N': N, 'd': d, 'g': gn}
            out['evals'] += 1
            out['nontrivial'] += 1
            try:
                X = UTPM.init_tensor(d, x0.copy())
                y = g(algopy.dot(cvec_.copy(), X))
                got = np.asarray(UTPM.extract_tensor(N, y, as_full_matrix=False), dtype=float)
            except Exception as ex:
                out['fails'].append({'sig': 'C15|consumer ridge %s|raises' % gn, 'case': case, 'detail': {'error': str(ex)[:200]}})
                continue
            if got.shape != exp.shape or not np.all(np.abs(got - exp) <= 1e-8 * (np.abs(exp) + np.abs(exp).max())):
                out['fails'].append({'sig': 'C15|consumer ridge %s|value|%s' % (gn, 'more than 8 rays' if len(J) > 8 else 'up to 8 rays'), 'case': case,
                                     'detail': {'max_relative_error': float(np.max(np.abs(got - exp) / (np.abs(exp).max() + 1e-300)))}})


def run_consumer_programs(u, out):
    """the "Hence" part on PROGRAMS: vectorised integer polynomial programs (constants of rank up to 3, products of
    polynomial operands, in-place updates; amc/props/c09.py) seeded with init_tensor(d, x) and read with extract_tensor
    against exact partial derivatives, N = 2, 3 and d = 2, 3"""
    from . import c09
    for N in (2, 3):
        for drv in ('tensor2', 'tensor3'):
            c = c09.Ctx({'kind': 'vecpoly', 'N': N, 'driver': drv, 'tier': 'quick', 'seed': u.get('seed', 0)})
            c09.run_vecpoly(c, N, drv, 'quick')
            out['evals'] += c.out['evals']
            out['nontrivial'] += c.out['nontrivial']
            for f in c.out['fails']:
                out['fails'].append({'sig': f['sig'].replace('C09|', 'C15|consumer program|'), 'case': {'kind': 'consumer_programs', 'N': N, 'driver': drv},
                                     'detail': f['detail']})


def run_unit(u):
    out = {'evals': 0, 'nontrivial': 0, 'fails': [], 'samples': [], 'maxima': {}, 'counters': {}}
    if u['kind'] == 'consumer':
        run_consumer(u, out)
        run_consumer_ridge(u, out)
        return out
    if u['kind'] == 'consumer_ridge':
        run_consumer_ridge(u, out)
        out['fails'] = [f for f in out['fails'] if all(f['case'].get(k) == u.get(k) for k in ('N', 'd', 'g'))]
        return out
    if u['kind'] == 'consumer_programs':
        run_consumer_programs(u, out)
        return out
    if u['kind'] == 'enum':
        for N, d in u['pairs']:
            check_enum(N, d, out, {'kind': 'enum', 'pairs': [[N, d]]})
        return out
    run_identity(u, out)
    return out


def replay(case):
    return run_unit(case)['fails']
