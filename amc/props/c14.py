"""C14  Operands are never modified; aliased and in-place forms are safe.

(1) every catalogue entry x (D,P) x memory layout of the operands {C-contiguous, per-slice Fortran-contiguous
    (transposing view), strided view}: byte snapshot of every argument before/after the call, and the result must
    equal the result obtained from C-contiguous copies (a kernel that uses its input as scratch space shows either way);
(2) x o x versus x o x.copy() for all binary operators and dot / outer / solve / minimum / maximum / pow;
(3) in-place operators with the right operand aliased to the left one (same object, reversed view, transposed view,
    overlapping slices) versus an independent copy (shared with C02's enumeration, reported under C14);
(4) every enumerated program: recording, re-evaluation, reverse sweep and every driver leave the user's input arrays,
    UTPM inputs and seed objects bit-identical; with TWO dependents where the first feeds the second, a sweep must not
    write into the caller's seeds and a second sweep with the same seed objects must return the same adjoints.
"""
import numpy as np

from .. import env
from .. import catalogue as CAT
from .. import programs as PR
from .. import adjoint as AD
from . import c02 as C02
import algopy
from algopy import UTPM, Function, CGraph

ID = 'C14'
RULE = ('cases = (catalogue entry, D, P, memory layout), (binary op, self-aliased), (in-place op, alias form, D, P), (program, '
        'operation in {record, function, pullback, drivers, two-dependent sweep}); non-trivial = all (every case has a '
        'non-constant argument whose bytes are compared); distinct = distinct tuples')
ASSUMPTIONS = ['bit-wise comparison of argument bytes; aliased forms compared bit-wise with the copy-based form']
DPS = [(1, 1), (3, 2), (4, 1), (8, 2)]      # D = 8: kernels that scale coefficient k by k and back are not bit-exact for k = 3, 5, 6, 7
LAYOUTS = ['C', 'F', 'strided']
CHUNK_E = 12
CHUNK_P = 40


def bounds(tier):
    return {'DP': DPS, 'layouts': LAYOUTS, 'program_depth_full': 1, 'program_depth_core': 2}


def relayout(a, mode):
    """same coefficients, different memory layout of a.data (returns a new UTPM)"""
    X = a.data
    if mode == 'C' or X.ndim < 3:
        return UTPM(X.copy())
    if mode == 'F':
        axes = (0, 1) + tuple(range(X.ndim - 1, 1, -1))
        Xt = np.ascontiguousarray(np.transpose(X, axes))
        return UTPM(Xt).T                      # each (d,p) slice is Fortran-contiguous
    if mode == 'strided':
        big = np.full(X.shape[:-1] + (2 * X.shape[-1],), 7.5)
        big[..., ::2] = X
        return UTPM(big[..., ::2])
    raise ValueError(mode)


def programs(tier):
    core = set(n for n, t in PR.TEMPLATES.items() if 'core' in t.tags)
    progs = [(p, 1) for p in PR.depth1()]
    for p in PR.depth1():
        if PR.in_domain(p, PR.POINTS[:1]) is None and (tier == 'thorough' or p[0][0] in core):
            progs += [(q, 2) for q in PR.extend(p, names=core if tier == 'quick' else None)]
    progs += [(p, 0) for p in PR.SCENARIOS.values()]
    return progs


def units(tier, seed):
    us = []
    names = [e.name for e in CAT.ENTRIES]
    for i in range(0, len(names), CHUNK_E):
        us.append({'kind': 'entries', 'names': names[i:i + CHUNK_E], 'tier': tier, 'seed': seed})
    us.append({'kind': 'selfalias', 'tier': tier, 'seed': seed})
    us.append({'kind': 'inplace', 'tier': tier, 'seed': seed})
    us.append({'kind': 'floordiv', 'tier': tier, 'seed': seed})
    us.append({'kind': 'argwrite', 'tier': tier, 'seed': seed})
    us.append({'kind': 'outalias', 'tier': tier, 'seed': seed})
    progs = programs(tier)
    for i in range(0, len(progs), CHUNK_P):
        us.append({'kind': 'programs', 'progs': progs[i:i + CHUNK_P], 'tier': tier, 'seed': seed})
    return us


def same_outputs(a, b):
    if len(a) != len(b):
        return False
    for x, y in zip(a, b):
        xd = x.data if isinstance(x, UTPM) else np.asarray(x)
        yd = y.data if isinstance(y, UTPM) else np.asarray(y)
        if xd.shape != yd.shape or not np.array_equal(xd, yd, equal_nan=True):
            if not (xd.shape == yd.shape and np.all(np.abs(xd - yd) <= 1e-13 * (1 + np.abs(yd)))):
                return False
    return True


def check_entry(e, D, P, seed, out):
    base = CAT.make_args(e, D, P, seed)
    try:
        ref = CAT.outputs(e.fn(*[UTPM(a.data.copy()) if isinstance(a, UTPM) else a for a in base]))
    except Exception:
        out['counters']['raises (reported by C10)'] = out['counters'].get('raises (reported by C10)', 0) + 1
        return
    for lay in LAYOUTS:
        args = [relayout(a, lay) if isinstance(a, UTPM) else (a.copy() if isinstance(a, np.ndarray) else a) for a in base]
        snaps = [a.data.copy() if isinstance(a, UTPM) else (a.copy() if isinstance(a, np.ndarray) else None) for a in args]
        case = {'kind': 'entry', 'name': e.name, 'D': D, 'P': P, 'layout': lay, 'seed': seed}
        out['evals'] += 1
        out['keys'].append('%s|%d|%d|%s' % (e.name, D, P, lay))
        try:
            res = CAT.outputs(e.fn(*args))
        except Exception as ex:
            out['fails'].append({'sig': 'C14|%s|layout %s|raises' % (e.name, lay), 'case': case, 'detail': {'error': str(ex)[:200]}})
            continue
        for k, (a, s) in enumerate(zip(args, snaps)):
            if s is None:
                continue
            now = a.data if isinstance(a, UTPM) else a
            if not np.array_equal(now, s, equal_nan=True):
                out['fails'].append({'sig': 'C14|%s|argument %d modified|layout %s' % (e.name, k, lay), 'case': case,
                                     'detail': {'order0_changed': bool(not np.array_equal(np.asarray(now)[0], s[0])) if isinstance(a, UTPM) else None}})
                break
        else:
            if not same_outputs(res, ref):
                out['fails'].append({'sig': 'C14|%s|result depends on memory layout %s' % (e.name, lay), 'case': case, 'detail': {}})


def run_selfalias(u, out):
    import operator
    ops = [('add', operator.add, 'any', (3,)), ('sub', operator.sub, 'any', (3,)), ('mul', operator.mul, 'any', (3,)), ('div', operator.truediv, 'any', (3,)),
           ('pow', operator.pow, 'pos', (3,)), ('dot[3]', algopy.dot, 'any', (3,)), ('dot[3,3]', algopy.dot, 'any', (3, 3)), ('outer', algopy.outer, 'any', (3,)),
           ('solve', algopy.solve, 'gen', (3, 3)), ('minimum', algopy.minimum, 'any', (3,)), ('maximum', algopy.maximum, 'any', (3,)),
           ('mul(x,x.T)', lambda a, b: a * b.T, 'any', (3, 3)), ('dot(x,x.T)', lambda a, b: algopy.dot(a, b.T), 'any', (3, 3)),
           ('div(x,x[::-1])', lambda a, b: a / b[::-1], 'any', (3,))]
    for nm, f, kind, shape in ops:
        for (D, P) in DPS:
            ent = CAT.Entry(nm, f, None, [CAT.u(shape, kind)])
            x = CAT.make_args(ent, D, P, u['seed'])[0]
            snap = x.data.copy()
            case = {'kind': 'selfalias', 'op': nm, 'D': D, 'P': P, 'seed': u['seed']}
            out['evals'] += 1
            out['keys'].append('self|%s|%d|%d' % (nm, D, P))
            try:
                r1 = f(x, x)
                r2 = f(UTPM(snap.copy()), UTPM(snap.copy()))
            except Exception as ex:
                out['fails'].append({'sig': 'C14|x o x|%s|raises' % nm, 'case': case, 'detail': {'error': str(ex)[:200]}})
                continue
            if not np.array_equal(x.data, snap):
                out['fails'].append({'sig': 'C14|x o x|%s|operand modified' % nm, 'case': case, 'detail': {}})
            elif r1.data.shape != r2.data.shape or not np.array_equal(r1.data, r2.data, equal_nan=True):
                out['fails'].append({'sig': 'C14|x o x|%s|differs from copy' % nm, 'case': case, 'detail': {}})


def run_floordiv(u, out):
    """x // y (division with removable singularity): operands untouched, also when a leading coefficient of y vanishes in
    some directions only"""
    for D in (3, 4):
        for P in (1, 3):
            for zero_dirs in ([], [0], [P - 1], list(range(P))):
                X = np.zeros((D, P))
                Y = np.zeros((D, P))
                for p in range(P):
                    X[:, p] = [0.5 * (d + 1) * (-1) ** (d + p) + 0.25 * p for d in range(D)]
                    Y[:, p] = [1.0 + 0.5 * d + 0.125 * p for d in range(D)]
                    if p in zero_dirs:
                        X[0, p] = 0.0
                        Y[0, p] = 0.0
                x, y = UTPM(X.copy()), UTPM(Y.copy())
                case = {'kind': 'floordiv', 'D': D, 'P': P, 'zero_dirs': zero_dirs}
                out['evals'] += 1
                out['keys'].append('floordiv|%d|%d|%s' % (D, P, zero_dirs))
                try:
                    q = x // y
                    q2 = UTPM(X.copy()) // UTPM(Y.copy())
                except Exception as ex:
                    out['counters']['floordiv_raises'] = out['counters'].get('floordiv_raises', 0) + 1
                    continue
                if not (np.array_equal(x.data, X) and np.array_equal(y.data, Y)):
                    out['fails'].append({'sig': 'C14|floordiv|operand modified|%s' % ('y0=0 in some direction' if zero_dirs else 'regular'), 'case': case, 'detail': {}})
                elif not np.array_equal(q.data, q2.data, equal_nan=True):
                    out['fails'].append({'sig': 'C14|floordiv|not reproducible', 'case': case, 'detail': {}})


def check_program(prog, depth, seed, out, ops=None):
    ps = PR.prog_str(prog)
    if PR.in_domain(prog, PR.POINTS[:4]) is not None:
        out['counters']['skipped_out_of_domain'] = out['counters'].get('skipped_out_of_domain', 0) + 1
        return
    case = {'kind': 'program', 'prog': prog, 'depth': depth, 'seed': seed}
    attribs = ['instr:%s' % i[0] for i in prog]

    def fail(op, what):
        out['fails'].append({'sig': 'C14|prog=%s|%s|%s' % (ps, op, what), 'case': dict(case, op=op), 'detail': {}, 'attribs': [a + '|' + op for a in attribs]})

    def want(op):
        return ops is None or op in ops
    x0 = UTPM(PR.curve(seed, 2, 2, pts=(3, 2, 1)))
    snap0 = x0.data.copy()
    Function.cgraph = None
    try:
        cg, x, y = PR.record(prog, x0)
    except Exception:
        Function.cgraph = None
        out['counters']['untraceable'] = out['counters'].get('untraceable', 0) + 1
        return
    if not isinstance(y, Function) or not isinstance(y.x, UTPM):
        return
    out['evals'] += 1
    out['keys'].append(ps + '|record')
    if want('record') and not np.array_equal(x0.data, snap0):
        fail('record', 'recording input modified')
        return
    # re-evaluation with ndarray and UTPM inputs
    for kind in ('nd', 'utpm'):
        inp = np.array(PR.POINTS[0]) if kind == 'nd' else UTPM(PR.curve(seed + 1, 3, 2))
        s = (inp.data if isinstance(inp, UTPM) else inp).copy()
        try:
            cg.function([inp])
        except Exception:
            continue
        out['evals'] += 1
        out['keys'].append(ps + '|function|' + kind)
        if want('function') and not np.array_equal(inp.data if isinstance(inp, UTPM) else inp, s):
            fail('function(%s)' % kind, 'input modified')
            return
    # every recorded node's pullback function called DIRECTLY (as the tracer does, but with seed objects that belong to the
    # caller): seeds, arguments and results must come back untouched
    if want('direct-pullback'):
        for F in cg.functionList:
            nm = getattr(F.func, '__name__', '')
            if F.func == Function.Id or nm in ('__setitem__', 'setitem') or nm.startswith('__i'):
                continue            # in-place operations own their operand
            outs = F.x if isinstance(F.x, tuple) else (F.x,)
            pb = getattr(UTPM, 'pb_' + nm, None)
            if pb is None or not all(isinstance(o, UTPM) for o in outs):
                continue
            args, argsbar = [], []
            for a in F.args:
                if isinstance(a, Function):
                    args.append(a.x)
                    argsbar.append(a.x.zeros_like() if isinstance(a.x, UTPM) else (np.zeros_like(a.x) if isinstance(a.x, np.ndarray) else None))
                else:
                    args.append(a)
                    argsbar.append(None)
            seeds = [UTPM(AD.dense(o.data.shape, seed, 50 + k)) for k, o in enumerate(outs)]
            objs = [('seed', sd) for sd in seeds] + [('argument', a) for a in args if isinstance(a, (UTPM, np.ndarray))] + [('result', o) for o in outs]
            snaps = [np.array(o.data if isinstance(o, UTPM) else o, copy=True) for _, o in objs]
            kw = {'out': list(argsbar)}
            kw.update(F.kwargs)
            try:
                pb(*(seeds + args + list(outs)), **kw)
            except Exception:
                continue
            out['evals'] += 1
            out['keys'].append(ps + '|direct-pullback|' + nm)
            for (role, o), sn in zip(objs, snaps):
                if not np.array_equal(o.data if isinstance(o, UTPM) else o, sn, equal_nan=True):
                    out['fails'].append({'sig': 'C14|direct pullback pb_%s|%s modified' % (nm, role), 'case': dict(case, op='direct-pullback'), 'detail': {'function': nm},
                                         'attribs': []})
                    break
    # reverse sweep: seed and forward input untouched
    xin = UTPM(PR.curve(seed + 2, 3, 2))
    sin_ = xin.data.copy()
    try:
        cg.pushforward([xin])
        ybar = UTPM(AD.dense(y.x.data.shape, seed, 8))
        sy = ybar.data.copy()
        cg.pullback([ybar])
        out['evals'] += 1
        out['keys'].append(ps + '|pullback')
        if want('pullback'):
            if not np.array_equal(ybar.data, sy):
                fail('pullback', 'seed modified')
            if not np.array_equal(xin.data, sin_):
                fail('pullback', 'forward input modified')
    except Exception:
        pass
    # drivers
    pt = np.array(PR.POINTS[1])
    spt = pt.copy()
    oshape = y.x.shape
    M = int(np.prod(oshape, dtype=int))
    v = np.arange(1.0, PR.NX + 1) / 4.0
    w = np.arange(1.0, M + 1) / 2.0
    sv, sw = v.copy(), w.copy()
    calls = [('jac_vec', lambda: cg.jac_vec(pt, v))]
    if len(oshape) <= 1:
        calls += [('jacobian', lambda: cg.jacobian(pt)), ('vec_jac', lambda: cg.vec_jac(w, pt)),
                  ('jacobian_utpm', lambda: cg.jacobian(xin))]
    if oshape == ():
        calls += [('gradient', lambda: cg.gradient(pt)), ('hessian', lambda: cg.hessian(pt)), ('hess_vec', lambda: cg.hess_vec(pt, v))]
    for nm, fcall in calls:
        if not want(nm):
            continue
        try:
            fcall()
        except Exception:
            continue
        out['evals'] += 1
        out['keys'].append(ps + '|' + nm)
        if not (np.array_equal(pt, spt) and np.array_equal(v, sv) and np.array_equal(w, sw) and np.array_equal(xin.data, sin_)):
            fail(nm, 'driver argument modified')
            return
    # two dependents, the first feeding the second
    if len(prog) >= 2 and want('two-dependents'):
        Function.cgraph = None
        try:
            cg2 = CGraph()
            xx = Function(UTPM(PR.curve(seed + 3, 2, 2)))
            yy, regs = PR.run(prog, xx)
            cg2.trace_off()
            mid = regs.get('r%d' % (len(prog) - 2))
            if not (isinstance(mid, Function) and isinstance(mid.x, UTPM) and isinstance(yy.x, UTPM)) or mid is yy:
                return
            cg2.independentFunctionList = [xx]
            cg2.dependentFunctionList = [mid, yy]
            s1 = UTPM(AD.dense(mid.x.data.shape, seed, 9))
            s2 = UTPM(AD.dense(yy.x.data.shape, seed, 10))
            k1, k2 = s1.data.copy(), s2.data.copy()
            cg2.pullback([s1, s2])
            g1 = xx.xbar.data.copy()
            out['evals'] += 1
            out['keys'].append(ps + '|two-dependents')
            if not (np.array_equal(s1.data, k1) and np.array_equal(s2.data, k2)):
                fail('two-dependents', 'seed modified')
                return
            cg2.pullback([s1, s2])
            g2 = xx.xbar.data.copy()
            if not np.allclose(g1, g2, rtol=1e-12, atol=1e-14, equal_nan=True):
                fail('two-dependents', 'second sweep with the same seed objects differs')
        except Exception:
            Function.cgraph = None
    Function.cgraph = None


def run_argwrite(u, out):
    """programs that write into their own argument: a DRIVER is asked for derivatives at a point; the array holding the
    point belongs to the caller - it must be unchanged afterwards, and a second call with the same array must give the
    same answer as the first one and as a call with a fresh copy"""
    seed = u['seed']
    for name, prog in PR.ARG_WRITING.items():
        for reckind in ('nd', 'utpm'):
            pt0 = np.array(PR.POINTS[1], dtype=float)
            x0 = np.array(PR.POINTS[3], dtype=float) if reckind == 'nd' else UTPM(PR.curve(seed, 2, 2, pts=(3, 2, 1)))
            Function.cgraph = None
            try:
                cg, x, y = PR.record(prog, x0)
            except Exception as ex:
                Function.cgraph = None
                out['counters']['untraceable'] = out['counters'].get('untraceable', 0) + 1
                continue
            oshape = y.x.shape if hasattr(y.x, 'shape') else ()
            M = int(np.prod(oshape, dtype=int))
            v = np.arange(1.0, PR.NX + 1) / 4.0
            w = np.arange(1.0, M + 1) / 2.0
            calls = [('jac_vec', lambda p: cg.jac_vec(p, v)), ('function', lambda p: cg.function([p])[0])]
            if len(oshape) <= 1:
                calls += [('jacobian', lambda p: cg.jacobian(p)), ('vec_jac', lambda p: cg.vec_jac(w, p)), ('vec_hess', lambda p: cg.vec_hess(w, p)),
                          ('vec_hess_vec', lambda p: cg.vec_hess_vec(w, p, v))]
            if oshape == ():
                calls += [('gradient', lambda p: cg.gradient(p)), ('gradient_list', lambda p: cg.gradient([p])[0]), ('hessian', lambda p: cg.hessian(p)),
                          ('hess_vec', lambda p: cg.hess_vec(p, v))]
            for nm, fcall in calls:
                case = {'kind': 'argwrite', 'name': name, 'reckind': reckind, 'driver': nm, 'seed': seed}
                for form in ('contiguous', 'strided view'):
                    if form == 'contiguous':
                        pt = pt0.copy()
                    else:
                        big = np.zeros(2 * PR.NX)
                        big[::2] = pt0
                        pt = big[::2]
                    try:
                        r1 = np.array(fcall(pt), dtype=float, copy=True)
                        changed = not np.array_equal(pt, pt0)
                        r2 = np.array(fcall(pt), dtype=float, copy=True)
                        r3 = np.array(fcall(pt0.copy()), dtype=float, copy=True)
                    except Exception as ex:
                        out['counters']['argwrite_raises'] = out['counters'].get('argwrite_raises', 0) + 1
                        break
                    out['evals'] += 1
                    out['keys'].append('argwrite|%s|%s|%s|%s' % (name, reckind, nm, form))
                    if nm == 'function':
                        # evaluating the program itself on the caller's array performs the program's own write: only
                        # the value is judged
                        if not np.allclose(r1, r3, rtol=1e-13, atol=0):
                            out['fails'].append({'sig': 'C14|argument-writing program|%s|value depends on the array object' % nm, 'case': dict(case, form=form), 'detail': {}})
                        continue
                    if changed:
                        out['fails'].append({'sig': 'C14|argument-writing program|%s|point array of the caller modified' % nm, 'case': dict(case, form=form),
                                             'detail': {'before': pt0[:4].tolist(), 'after': np.asarray(pt)[:4].tolist()}})
                        break
                    if not (np.allclose(r1, r2, rtol=1e-13, atol=0) and np.allclose(r1, r3, rtol=1e-13, atol=0)):
                        out['fails'].append({'sig': 'C14|argument-writing program|%s|second call with the same array differs' % nm, 'case': dict(case, form=form), 'detail': {}})
                        break
            Function.cgraph = None
    # several independents: the caller's LIST of points is the caller's - same entries (identity, type, bytes) after the call,
    # and a second call with the same list gives the same gradients
    Function.cgraph = None
    cg = CGraph()
    fa, fb, fs = Function(np.array([1.0, 2.0, 3.0])), Function(np.array([[0.5, -1.0], [2.0, 4.0]])), Function(np.array(1.5))
    y = algopy.sum(fa * fa) * algopy.sum(fb) + fs * fa[0]
    cg.trace_off()
    cg.independentFunctionList = [fa, fb, fs]
    cg.dependentFunctionList = [y]
    for form in ('arrays', 'nested lists'):
        a0, b0, s0 = np.array([2.0, -1.0, 0.5]), np.array([[1.0, 2.0], [-3.0, 0.25]]), np.array(0.75)
        pts = [a0, b0, s0] if form == 'arrays' else [a0.tolist(), b0.tolist(), s0]
        keep = list(pts)
        snaps = [np.array(p, copy=True) for p in pts]
        out['evals'] += 1
        out['keys'].append('listarg|' + form)
        case = {'kind': 'argwrite', 'name': 'list of independents', 'form': form, 'driver': 'gradient'}
        try:
            g1 = [np.array(g, copy=True) for g in cg.gradient(pts)]
            same_objs = len(pts) == 3 and all(p is k for p, k in zip(pts, keep)) and all(np.array_equal(np.asarray(p), sn) for p, sn in zip(pts, snaps))
            g2 = [np.array(g, copy=True) for g in cg.gradient(pts)]
        except Exception as ex:
            out['fails'].append({'sig': 'C14|list of independents|gradient|raises (second call with the same list?)', 'case': case, 'detail': {'error': str(ex)[:160]}})
            continue
        exp = [2 * a0 * b0.sum() + np.array([float(s0), 0, 0]), np.full((2, 2), float((a0 * a0).sum())), np.array(a0[0])]
        if not same_objs:
            out['fails'].append({'sig': "C14|list of independents|gradient|caller's list modified", 'case': case, 'detail': {'types': [type(p).__name__ for p in pts]}})
        elif not all(np.allclose(x1, x2) and np.allclose(x1, e) for x1, x2, e in zip(g1, g2, exp)):
            out['fails'].append({'sig': 'C14|list of independents|gradient|value', 'case': case, 'detail': {}})
    Function.cgraph = None
    out['samples'] = [{'argument_writing_programs': sorted(PR.ARG_WRITING)}]


def run_outalias(u, out):
    """UTPM.dot(x, y, out=...) - the only product with an out argument: whatever the destination (none, a fresh object, a
    NEW object that is a view of an operand, a transposed view of an operand), the returned value is the product"""
    rng = np.random.default_rng(5)
    for (D, P) in [(1, 1), (3, 2)]:
        X0 = np.round(rng.uniform(-1, 1, size=(D, P, 3, 3)) * 8) / 8.0
        Y0 = np.round(rng.uniform(-1, 1, size=(D, P, 3, 3)) * 8) / 8.0
        C = np.round(rng.uniform(-1, 1, size=(3, 3)) * 8) / 8.0
        forms = [('U,U', lambda x, y: (x, y)), ('arr,U', lambda x, y: (C.copy(), y)), ('U,arr', lambda x, y: (x, C.copy()))]
        for fname, mk in forms:
            a, b = mk(UTPM(X0.copy()), UTPM(Y0.copy()))
            ref = UTPM.dot(a, b).data.copy()
            dests = [('fresh', lambda x, y: UTPM(np.full(ref.shape, 7.0))), ('the operand x', lambda x, y: x), ('view of x', lambda x, y: UTPM(x.data)),
                     ('view of y', lambda x, y: UTPM(y.data)), ('transposed view of x', lambda x, y: x.T), ('x[...]', lambda x, y: x[...])]
            for dname, mkd in dests:
                x, y = UTPM(X0.copy()), UTPM(Y0.copy())
                a, b = mk(x, y)
                if ('x' in dname and not isinstance(a, UTPM)) or ('y' in dname and not isinstance(b, UTPM)):
                    continue
                out['evals'] += 1
                out['keys'].append('outalias|%s|%s|%d' % (fname, dname, D))
                case = {'kind': 'outalias', 'form': fname, 'out': dname, 'D': D, 'P': P}
                try:
                    r = UTPM.dot(a, b, out=mkd(x, y))
                except Exception as ex:
                    out['fails'].append({'sig': 'C14|dot out=|%s|raises' % dname, 'case': case, 'detail': {'error': str(ex)[:160]}})
                    continue
                if not isinstance(r, UTPM) or r.data.shape != ref.shape or not np.allclose(r.data, ref, rtol=1e-13, atol=1e-14):
                    out['fails'].append({'sig': 'C14|dot out=|destination %s|returned value is not the product' % dname, 'case': case, 'detail': {}})


def run_forward_drivers(u, out):
    """the forward-mode drivers: seeding does not modify the point / direction arrays, extraction does not modify the
    propagated polynomial (so a second extraction gives the same answer)"""
    def f(x):
        return x[0] * x[1] * x[2] + algopy.sin(x[0]) * x[2] - 2.0 * x[1] * x[1]
    x0 = np.array([0.5, -1.25, 0.75])
    v0 = np.array([1.0, -0.5, 2.0])
    N = 3
    drivers = [('jacobian', lambda x, v: UTPM.init_jacobian(x), lambda y: UTPM.extract_jacobian(y)),
               ('jac_vec', lambda x, v: UTPM.init_jac_vec(x, v), lambda y: UTPM.extract_jac_vec(y)),
               ('hessian', lambda x, v: UTPM.init_hessian(x), lambda y: UTPM.extract_hessian(N, y)),
               ('hess_vec', lambda x, v: UTPM.init_hess_vec(x, v), lambda y: UTPM.extract_hess_vec(N, y)),
               ('tensor2', lambda x, v: UTPM.init_tensor(2, x), lambda y: UTPM.extract_tensor(N, y)),
               ('tensor3', lambda x, v: UTPM.init_tensor(3, x), lambda y: UTPM.extract_tensor(N, y, as_full_matrix=False))]
    for nm, init, ext in drivers:
        x, v = x0.copy(), v0.copy()
        out['evals'] += 1
        out['keys'].append('fwd-driver|' + nm)
        case = {'kind': 'fwddrv', 'driver': nm}
        try:
            X = init(x, v)
            if not (np.array_equal(x, x0) and np.array_equal(v, v0)):
                out['fails'].append({'sig': 'C14|forward driver %s|seeding modified its arguments' % nm, 'case': case, 'detail': {}})
                continue
            Xs = X.data.copy()
            y = f(X)
            if not np.array_equal(X.data, Xs):
                out['fails'].append({'sig': 'C14|forward driver %s|evaluation modified the seeded polynomial' % nm, 'case': case, 'detail': {}})
                continue
            ys = y.data.copy()
            r1 = np.array(ext(y), dtype=float, copy=True)
            if not np.array_equal(y.data, ys):
                out['fails'].append({'sig': 'C14|forward driver %s|extraction modified the propagated polynomial' % nm, 'case': case, 'detail': {}})
                continue
            r2 = np.array(ext(y), dtype=float, copy=True)
            if not np.array_equal(r1, r2):
                out['fails'].append({'sig': 'C14|forward driver %s|second extraction differs' % nm, 'case': case, 'detail': {}})
        except Exception as ex:
            out['fails'].append({'sig': 'C14|forward driver %s|raises' % nm, 'case': case, 'detail': {'error': str(ex)[:160]}})


def run_nondyadic(u, out):
    """element-wise functions at D = 8 on NON-dyadic coefficients (0.1, 1/3, 0.7, ...): a kernel that scales coefficient k by k and
    back, or adds and subtracts a constant, returns the argument 1 ulp off - byte comparison of the argument"""
    vals = np.array([0.1, 1.0 / 3.0, 0.7, 0.3, 0.123456789, 0.9, 0.45, 0.05])
    for e in CAT.ENTRIES:
        if 'elementwise' not in e.tags or len(e.args) != 1 or e.args[0][0] != 'u':
            continue
        shape = e.args[0][1]
        kind = e.args[0][2]
        n = int(np.prod(shape, dtype=int)) if shape else 1
        for (D, P) in [(8, 1), (6, 2)]:
            if D > e.maxD:
                continue
            data = np.resize(vals, D * P * n).reshape((D, P) + shape).copy()
            data[1:] *= np.where(np.arange(n).reshape(shape) % 2 == 0, 1.0, -1.0) if n > 1 else 1.0
            base = CAT.make_args(e, 1, P, u['seed'])[0].data[0]
            data[0] = base + 0.013
            x = UTPM(data.copy())
            out['evals'] += 1
            out['keys'].append('nondyadic|%s|%d|%d' % (e.name, D, P))
            try:
                e.fn(x)
            except Exception:
                continue
            if not np.array_equal(x.data, data, equal_nan=True):
                out['fails'].append({'sig': 'C14|%s|argument modified (non-dyadic coefficients)' % e.name, 'case': {'kind': 'nondyadic', 'name': e.name, 'D': D, 'P': P},
                                     'detail': {'max_change': float(np.nanmax(np.abs(x.data - data)))}})


def run_symmetric_consumers(u, out):
    """functions that expect a symmetric argument (eigh, eigh1, cholesky, svd via eigh) read it as they please, but must not write
    to it: higher coefficients symmetric only up to rounding, grossly non-symmetric, or stored in one triangle"""
    rng = np.random.default_rng(23)
    for N in (2, 3):
        for D in (2, 3):
            for P in (1, 2):
                base = np.round(rng.uniform(-1, 1, size=(P, N, N)) * 8) / 8.0
                base = base + np.swapaxes(base, -1, -2) + np.eye(N) * (4.0 + np.arange(N))
                H = np.round(rng.uniform(-1, 1, size=(D - 1, P, N, N)) * 8) / 8.0
                variants = {'rounding asymmetry': H + np.swapaxes(H, -1, -2) + np.triu(np.ones((N, N)), 1) * 2.0 ** -50,
                            'non-symmetric': H, 'lower triangle only': np.tril(H)}
                for vn, hv in variants.items():
                    data = np.concatenate([base[None], hv])
                    for fn, f in (('eigh', algopy.eigh), ('eigh1', lambda a: UTPM.eigh1(a)[:2]), ('cholesky', algopy.cholesky), ('svd', algopy.svd)):
                        x = UTPM(data.copy())
                        out['evals'] += 1
                        out['keys'].append('symcons|%s|%s|%d|%d|%d' % (fn, vn, N, D, P))
                        try:
                            f(x)
                        except Exception:
                            continue
                        if not np.array_equal(x.data, data):
                            out['fails'].append({'sig': 'C14|%s|argument modified|higher coefficients %s' % (fn, vn), 'case': {'kind': 'symcons', 'fn': fn, 'variant': vn, 'N': N, 'D': D, 'P': P},
                                                 'detail': {'max_change': float(np.abs(x.data - data).max())}})


def run_unit(u):
    out = {'evals': 0, 'keys': [], 'fails': [], 'samples': [], 'counters': {}}
    if u['kind'] == 'entries':
        for nm in u['names']:
            e = CAT.BY_NAME[nm]
            for (D, P) in DPS:
                if D <= e.maxD:
                    check_entry(e, D, P, u['seed'], out)
        out['samples'] = [{'entry': u['names'][0], 'DP': DPS, 'layouts': LAYOUTS}]
    elif u['kind'] == 'selfalias':
        run_selfalias(u, out)
    elif u['kind'] == 'floordiv':
        run_floordiv(u, out)
    elif u['kind'] == 'argwrite':
        run_argwrite(u, out)
    elif u['kind'] == 'outalias':
        run_outalias(u, out)
        run_symmetric_consumers(u, out)
        run_forward_drivers(u, out)
        run_nondyadic(u, out)
    elif u['kind'] == 'inplace':
        o2 = {'evals': 0, 'nontrivial': 0, 'fails': [], 'samples': [], 'counters': {}}
        C02.run_alias({'tier': u['tier']}, o2)
        out['evals'] += o2['evals']
        out['keys'] += ['inplace|%d' % i for i in range(o2['evals'])]
        for f in o2['fails']:
            out['fails'].append({'sig': f['sig'].replace('C02|', 'C14|'), 'case': dict(f['case'], kind='inplace'), 'detail': f['detail']})
    else:
        for prog, depth in u['progs']:
            check_program(prog, depth, u['seed'], out)
        out['samples'] = [{'program': PR.prog_str(u['progs'][0][0]), 'operations': ['record', 'function', 'pullback', 'drivers', 'two-dependents']}]
    return out


def replay(case):
    out = {'evals': 0, 'keys': [], 'fails': [], 'samples': [], 'counters': {}}
    if case['kind'] == 'entry':
        check_entry(CAT.BY_NAME[case['name']], case['D'], case['P'], case.get('seed', 0), out)
        return [f for f in out['fails'] if f['case']['layout'] == case['layout']]
    if case['kind'] == 'selfalias':
        run_selfalias({'seed': case.get('seed', 0)}, out)
        return [f for f in out['fails'] if f['case']['op'] == case['op'] and f['case']['D'] == case['D'] and f['case']['P'] == case['P']]
    if case['kind'] == 'inplace':
        return C02.replay(dict(case, kind='alias'))
    if case['kind'] == 'nondyadic':
        run_nondyadic({'seed': 0}, out)
        return [f for f in out['fails'] if all(f['case'].get(k) == case.get(k) for k in ('name', 'D', 'P'))]
    if case['kind'] == 'fwddrv':
        run_forward_drivers({}, out)
        return [f for f in out['fails'] if f['case'].get('driver') == case.get('driver')]
    if case['kind'] == 'symcons':
        run_symmetric_consumers({}, out)
        return [f for f in out['fails'] if all(f['case'].get(k) == case.get(k) for k in ('fn', 'variant', 'N', 'D', 'P'))]
    if case['kind'] == 'outalias':
        run_outalias({}, out)
        return [f for f in out['fails'] if all(f['case'].get(k) == case.get(k) for k in ('form', 'out', 'D', 'P'))]
    if case['kind'] == 'argwrite':
        run_argwrite({'seed': case.get('seed', 0)}, out)
        return [f for f in out['fails'] if all(f['case'].get(k) == case.get(k) for k in ('name', 'reckind', 'driver', 'form'))]
    if case['kind'] == 'floordiv':
        run_floordiv({}, out)
        return [f for f in out['fails'] if f['case']['D'] == case['D'] and f['case']['P'] == case['P'] and f['case']['zero_dirs'] == case['zero_dirs']]
    check_program(case['prog'], case.get('depth', 1), case.get('seed', 0), out)
    return [f for f in out['fails'] if f['case'].get('op') == case.get('op')]
