"""C17  Conversions between representations are lossless and mutually inverse.

Exhaustive over: coefficient shapes x (D,P) for base+dirs <-> UTPM (both round-trip directions, definition checked
element by element); N in 1..5 x UPLO in {F,L,U} x {ndarray, UTPM real, UTPM complex} for symvec/vecsym (both
directions); container shapes x element shapes x {real, complex} x {list, object ndarray} for as_utpm / ndarray2utpm;
all 2x2 block shape patterns for combine_blocks; all s in [-D, D] for shift(s) then shift(-s); coeff_op;
ALL pivot vectors piv[i] in [i,N) for N <= 6 (7 thorough) for utils.piv2mat / piv2det against sequential row-swap
semantics, and for UTPM.piv2mat / piv2det with several directions carrying DIFFERENT pivot vectors; and every
nonsingular small-integer matrix through the real scipy.linalg.lu_factor: P L U == A, det == sign * prod(diag U).
Round trips are compared bit-wise, dtype included ("lose nothing").
"""
import itertools
from fractions import Fraction

import numpy as np
import scipy.linalg

from .. import env
import algopy
from algopy import UTPM
from algopy import utils as AU

ID = 'C17'
RULE = ('cases = one per (helper, shape/convention/dtype/(D,P)/pivot vector ...) combination listed in the module docstring, each '
        'enumerated completely; non-trivial = cases whose data is not invariant under the conversion being tested (more than '
        'one element / a non-identity permutation / a non-zero shift)')
ASSUMPTIONS = ['bit-wise comparison of round trips; exact integer/rational arithmetic for permutation identities']
SHAPES = [(), (1,), (3,), (2, 3), (3, 3), (1, 5), (2, 3, 2)]
DPS = [(1, 1), (2, 1), (3, 2), (4, 3)]


def bounds(tier):
    return {'shapes': [list(s) for s in SHAPES], 'DP': DPS, 'symvec_N': [1, 2, 3, 4, 5], 'pivot_N_max': 6 if tier == 'quick' else 7,
            'lu2': {'N': [2, 3, 4], 'D_max': 6 if tier == 'quick' else 8, 'P': [1, 2]}}


def vals(shape, off=0, cplx=False):
    n = int(np.prod(shape, dtype=int))
    a = (np.arange(n) * 7 % 23 - 11 + off) / 4.0 + 0.125 * (np.arange(n) % 3)
    a = a.reshape(shape)
    if cplx:
        a = a + 1j * ((np.arange(n) * 5 % 17 - 8) / 8.0).reshape(shape)
    return a


def units(tier, seed):
    us = [{'kind': k, 'tier': tier, 'seed': seed} for k in ('basedirs', 'symvec', 'asutpm', 'blocks', 'shift', 'coeffop', 'utpmpiv')]
    nmax = 6 if tier == 'quick' else 7
    for N in range(1, nmax + 1):
        us.append({'kind': 'piv', 'N': N, 'tier': tier, 'seed': seed})
    for N in (2, 3):
        us.append({'kind': 'lu', 'N': N, 'tier': tier, 'seed': seed})
    for N in (2, 3, 4):
        us.append({'kind': 'lu2', 'N': N, 'tier': tier, 'seed': seed})
    return us


class Ctx(object):
    def __init__(self, u):
        self.u = u
        self.out = {'evals': 0, 'nontrivial': 0, 'fails': [], 'samples': [], 'counters': {}}

    def fail(self, what, sub, detail):
        self.out['fails'].append({'sig': 'C17|%s|%s' % (what, sub), 'case': dict(self.u, what=what, sub=sub), 'detail': detail})

    def ev(self, nontrivial=True):
        self.out['evals'] += 1
        self.out['nontrivial'] += 1 if nontrivial else 0


def same(a, b):
    a = np.asarray(a)
    b = np.asarray(b)
    return a.shape == b.shape and a.dtype == b.dtype and a.tobytes() == b.tobytes()


def decoupled(c, what, sub, sources, results, detail):
    """conversions MOVE data: overwriting the source afterwards must not change what was extracted, and overwriting the
    extracted representation must not change the source (the round trip still has to hold after either buffer is reused)"""
    c.ev(True)
    ssn = [np.array(a, copy=True) for a in sources]
    rsn = [np.array(a, copy=True) for a in results]
    for a in sources:
        if a.size:
            a[...] = -77.5
    ok = all(np.array_equal(r, k, equal_nan=True) for r, k in zip(results, rsn))
    for a, k in zip(sources, ssn):
        a[...] = k
    for r in results:
        if r.size:
            r[...] = 55.25
    ok2 = all(np.array_equal(a, k, equal_nan=True) for a, k in zip(sources, ssn))
    for r, k in zip(results, rsn):
        r[...] = k
    if not ok:
        c.fail(what + ' result changes when the source buffer is reused', sub, detail)
    elif not ok2:
        c.fail(what + ' source changes when the result is overwritten', sub, detail)


def run_decoupled(c):
    for (D, P) in DPS[1:3]:
        for shape in [(3,), (2, 2)]:
            x = vals(shape, 1)
            V = vals(shape + (P, D - 1), 2)
            u = AU.base_and_dirs2utpm(x, V)
            decoupled(c, 'base_and_dirs2utpm', 'ndim=%d' % len(shape), [x, V], [u.data], {'D': D, 'P': P})
            x2, V2 = AU.utpm2base_and_dirs(u)
            decoupled(c, 'utpm2base_and_dirs', 'ndim=%d' % len(shape), [u.data], [x2, V2], {'D': D, 'P': P})
        for N in (2, 3):
            A = UTPM(sym(vals((D, P, N, N), 3)))
            for UPLO in 'FLU':
                v = algopy.symvec(A, UPLO)
                decoupled(c, 'symvec', UPLO, [A.data], [v.data], {'N': N, 'D': D, 'P': P})
            v = UTPM(vals((D, P, N * (N + 1) // 2), 5))
            B = algopy.vecsym(v)
            decoupled(c, 'vecsym', 'utpm', [v.data], [B.data], {'N': N, 'D': D, 'P': P})
            An = sym(vals((N, N), 3))
            vn = algopy.symvec(An)
            decoupled(c, 'symvec', 'ndarray', [An], [vn], {'N': N})
            decoupled(c, 'vecsym', 'ndarray', [vn], [algopy.vecsym(vn)], {'N': N})
        els = [UTPM(vals((D, P, 2), k)) for k in range(3)]
        y = UTPM.as_utpm(els)
        decoupled(c, 'as_utpm', 'list', [e.data for e in els], [y.data], {'D': D, 'P': P})
        z = UTPM(vals((D, P, 3), 4))
        for sft in (-1, 0, 1):
            decoupled(c, 'shift', 's=%d' % sft, [z.data], [z.shift(sft).data], {'D': D, 'P': P})


def run_basedirs(c):
    for shape in SHAPES:
        for (D, P) in DPS:
            if D < 2:
                continue
            Dd = D - 1
            x = vals(shape, 1)
            V = vals(shape + (P, Dd), 2)
            sub = 'ndim=%d' % len(shape)
            c.ev(x.size > 1 or P * Dd > 1)
            try:
                u = AU.base_and_dirs2utpm(x, V)
                ok = u.data.shape == (D, P) + shape
                if ok:
                    for p in range(P):
                        ok = ok and same(u.data[0, p], x)
                        for d in range(Dd):
                            ok = ok and np.array_equal(u.data[1 + d, p], V[..., p, d])
                if not ok:
                    c.fail('base_and_dirs2utpm', sub, {'shape': list(shape), 'D': D, 'P': P})
                    continue
                x2, V2 = AU.utpm2base_and_dirs(u)
                if not (same(x2, x) and same(V2, V)):
                    c.fail('utpm2base_and_dirs(base_and_dirs2utpm)', sub, {'shape': list(shape), 'D': D, 'P': P})
                u3 = AU.base_and_dirs2utpm(x2, V2)
                if not same(u3.data, u.data):
                    c.fail('base_and_dirs2utpm(utpm2base_and_dirs)', sub, {'shape': list(shape), 'D': D, 'P': P})
                W = AU.utpm2dirs(u)
                okd = W.shape == shape + (P, D)
                if okd:
                    for p in range(P):
                        for d in range(D):
                            okd = okd and np.array_equal(W[..., p, d], u.data[d, p])
                if not okd:
                    c.fail('utpm2dirs', sub, {'shape': list(shape), 'D': D, 'P': P})
            except Exception as e:
                c.fail('basedirs raises', sub, {'error': str(e)[:200], 'shape': list(shape), 'D': D, 'P': P})


def sym(a):
    return a + np.swapaxes(a, -1, -2)


def run_symvec(c):
    for N in range(1, 6):
        for UPLO in 'FLU':
            for kind in ('ndarray', 'utpm', 'utpm_c'):
                sub = '%s|%s' % (UPLO, kind)
                for (D, P) in ([(1, 1)] if kind == 'ndarray' else DPS):
                    c.ev(N > 1)
                    try:
                        cplx = kind == 'utpm_c'
                        if kind == 'ndarray':
                            A = sym(vals((N, N), 3))
                            v = algopy.symvec(A, UPLO)
                            A2 = algopy.vecsym(v)
                            if not (np.shape(v) == (N * (N + 1) // 2,) and same(A2, A)):
                                c.fail('vecsym(symvec)', sub, {'N': N})
                            w = vals((N * (N + 1) // 2,), 5)
                            w2 = algopy.symvec(algopy.vecsym(w), UPLO)
                            if not same(w2, w):
                                c.fail('symvec(vecsym)', sub, {'N': N})
                            # definition: row-wise distinct entries
                            ref = np.array([A[r, cc] for r in range(N) for cc in range(r, N)])
                            if not np.array_equal(v, ref):
                                c.fail('symvec order', sub, {'N': N})
                        else:
                            A = UTPM(sym(vals((D, P, N, N), 3, cplx)))
                            v = algopy.symvec(A, UPLO)
                            A2 = algopy.vecsym(v)
                            if not (v.data.shape == (D, P, N * (N + 1) // 2) and same(A2.data, A.data)):
                                c.fail('vecsym(symvec)', sub, {'N': N, 'D': D, 'P': P, 'dtype': str(getattr(A2.data, 'dtype', None))})
                            w = UTPM(vals((D, P, N * (N + 1) // 2), 5, cplx))
                            w2 = algopy.symvec(algopy.vecsym(w), UPLO)
                            if not same(w2.data, w.data):
                                c.fail('symvec(vecsym)', sub, {'N': N, 'D': D, 'P': P, 'dtype': str(getattr(w2.data, 'dtype', None))})
                            # non-symmetric input: 'L' / 'U' read one triangle only, 'F' symmetrises
                            B = vals((D, P, N, N), 9, cplx)
                            vb = algopy.symvec(UTPM(B.copy()), UPLO).data
                            if UPLO == 'L':
                                ref = np.stack([B[:, :, m, n] for n in range(N) for m in range(n, N)], axis=-1)
                            elif UPLO == 'U':
                                ref = np.stack([B[:, :, n, m] for n in range(N) for m in range(n, N)], axis=-1)
                            else:
                                ref = np.stack([0.5 * (B[:, :, r, cc] + B[:, :, cc, r]) for r in range(N) for cc in range(r, N)], axis=-1)
                            if not np.array_equal(vb, ref):
                                c.fail('symvec triangle', sub, {'N': N, 'D': D, 'P': P})
                    except Exception as e:
                        c.fail('symvec raises', sub, {'error': str(e)[:200], 'N': N})


EXTREME = [1.7e308, -1.2e308, np.inf, -np.inf, -0.0, 5e-324, np.nan, 2.0 ** -1022]


def run_symvec_extreme(c):
    """"lose nothing": entries that do not survive arithmetic (x + x - x, 0.5 * (x + x), x * 1) - the largest finite numbers,
    infinities, nan, negative zero, subnormals - must be MOVED bit for bit by vecsym and by symvec 'L' / 'U'"""
    for N in range(1, 5):
        n = N * (N + 1) // 2
        for rot in range(len(EXTREME)):
            for (D, P) in [(1, 1), (2, 2)]:
                w = vals((D, P, n), 5)
                flat = w.reshape(D * P, n)
                for k in range(n):
                    if (k + rot) % 2 == 0:
                        flat[(k + rot) % (D * P), k] = EXTREME[(k + rot) % len(EXTREME)]
                c.ev(True)
                try:
                    A = algopy.vecsym(UTPM(w.copy()))
                    ref = np.zeros((D, P, N, N))
                    k = 0
                    for r in range(N):
                        for cc in range(r, N):
                            ref[:, :, r, cc] = w[:, :, k]
                            ref[:, :, cc, r] = w[:, :, k]
                            k += 1
                    if not same(A.data, ref):
                        c.fail('vecsym extreme values', 'utpm', {'N': N, 'D': D, 'P': P, 'rotation': rot})
                        continue
                    An = algopy.vecsym(w[0, 0].copy())
                    if not same(An, ref[0, 0]):
                        c.fail('vecsym extreme values', 'ndarray', {'N': N, 'rotation': rot})
                    for UPLO in 'LU':
                        w2 = algopy.symvec(UTPM(ref.copy()), UPLO)
                        if not same(w2.data, w):
                            c.fail('symvec extreme values', UPLO + '|utpm', {'N': N, 'D': D, 'P': P, 'rotation': rot})
                        w3 = algopy.symvec(ref[0, 0].copy(), UPLO)
                        if not same(w3, w[0, 0]):
                            c.fail('symvec extreme values', UPLO + '|ndarray', {'N': N, 'rotation': rot})
                except Exception as e:
                    c.fail('symvec extreme raises', 'N=%d' % N, {'error': str(e)[:200]})


def top_pairing(a, b):
    """the library's pairing of an adjoint polynomial with a direction polynomial: sum_c <a_c, b_(D-1-c)>"""
    D = a.shape[0]
    return float(sum(np.sum(a[k] * b[D - 1 - k]) for k in range(D)))


def run_adjoints(c):
    """the pullbacks of the (linear) conversion helpers are their transposes: <pb(ybar), x'> = <ybar, f(x')> for general,
    NON-symmetric seeds and fresh arguments; for lu2 the first-order identity <Abar, A'> = <Lbar, L'> + <Ubar, U'>"""
    for (D, P) in [(1, 1), (2, 2)]:
        for N in (2, 3, 4):
            n = N * (N + 1) // 2
            vp = UTPM(vals((D, P, n), 7))
            Abar = UTPM(vals((D, P, N, N), 9))                       # non-symmetric
            c.ev(True)
            try:
                lhs = sum(top_pairing(UTPM.pb_vecsym(UTPM(Abar.data.copy()), vp, algopy.vecsym(vp)).data[:, p], vp.data[:, p]) for p in range(P))
                rhs = sum(top_pairing(Abar.data[:, p], algopy.vecsym(vp).data[:, p]) for p in range(P))
                if abs(lhs - rhs) > 1e-12 * (1 + abs(rhs)):
                    c.fail('pb_vecsym', 'not the transpose of vecsym', {'N': N, 'D': D, 'P': P, 'lhs': lhs, 'rhs': rhs})
            except Exception as e:
                c.fail('pb_vecsym raises', 'N=%d' % N, {'error': str(e)[:200]})
            Ap = UTPM(vals((D, P, N, N), 11))
            for UPLO in 'FLU':
                c.ev(True)
                try:
                    vbar = UTPM(vals((D, P, n), 13))
                    y = algopy.symvec(Ap, UPLO)
                    xb = UTPM.pb_symvec(UTPM(vbar.data.copy()), Ap, UPLO, y)
                    lhs = sum(top_pairing(xb.data[:, p], Ap.data[:, p]) for p in range(P))
                    rhs = sum(top_pairing(vbar.data[:, p], y.data[:, p]) for p in range(P))
                    if abs(lhs - rhs) > 1e-12 * (1 + abs(rhs)):
                        c.fail('pb_symvec', 'not the transpose of symvec|' + UPLO, {'N': N, 'D': D, 'P': P, 'lhs': lhs, 'rhs': rhs})
                except Exception as e:
                    c.fail('pb_symvec raises', UPLO, {'error': str(e)[:200]})
    # lu2: first-order adjoint identity with non-zero seeds for BOTH factors, one direction per pivot pattern
    rng = np.random.default_rng(17)
    for N in (2, 3, 4):
        seen = set()
        for trial in range(200):
            A0 = np.round(rng.uniform(-2, 2, size=(N, N)) * 4) / 4.0
            if abs(np.linalg.det(A0)) < 0.5 or np.linalg.cond(A0) > 30:
                continue
            piv = tuple(int(v) for v in scipy.linalg.lu_factor(A0)[1])
            if piv in seen:
                continue
            seen.add(piv)
            A1 = np.round(rng.uniform(-1, 1, size=(N, N)) * 8) / 8.0
            data = np.zeros((2, 1, N, N))
            data[0, 0], data[1, 0] = A0, A1
            c.ev(True)
            try:
                PIV2, L2, U2 = UTPM.lu2(UTPM(data.copy()))
                A = UTPM(data[:1].copy())
                PIV, L, U = UTPM.lu2(A)
                Lbar = UTPM(np.tril(np.round(rng.uniform(-1, 1, size=(1, 1, N, N)) * 8) / 8.0, -1))
                Ubar = UTPM(np.triu(np.round(rng.uniform(-1, 1, size=(1, 1, N, N)) * 8) / 8.0))
                Abar = UTPM.pb_lu2(UTPM(np.zeros_like(PIV.data, dtype=float)), UTPM(Lbar.data.copy()), UTPM(Ubar.data.copy()), A, PIV, L, U)
                lhs = float(np.sum(Abar.data[0, 0] * A1))
                rhs = float(np.sum(Lbar.data[0, 0] * L2.data[1, 0]) + np.sum(Ubar.data[0, 0] * U2.data[1, 0]))
                if abs(lhs - rhs) > 1e-10 * (1 + abs(rhs) + np.abs(Abar.data).max()):
                    c.fail('pb_lu2', 'adjoint identity with non-zero Lbar', {'N': N, 'pivots': list(piv), 'lhs': lhs, 'rhs': rhs})
            except Exception as e:
                c.fail('pb_lu2 raises', 'N=%d' % N, {'error': str(e)[:200]})


def run_asutpm(c):
    for cshape in [(2,), (3, 1), (2, 2), (2, 3, 4), (3, 2, 1, 2)]:
        for eshape in [(), (2,), (2, 2)]:
            for cplx in (False, True):
                for (D, P) in DPS[1:3]:
                    for container in ('list', 'objarray', 'objarray.T', 'objarray.F'):
                        for fn_name in ('as_utpm', 'ndarray2utpm'):
                            sub = '%s|%s|%s' % (fn_name, container, 'complex' if cplx else 'real')
                            c.ev(True)
                            n = int(np.prod(cshape))
                            elems = [UTPM(vals((D, P) + eshape, k, cplx)) for k in range(n)]
                            if container == 'list':
                                cont = np.empty(n, dtype=object)
                                cont[:] = elems
                                cont = cont.reshape(cshape).tolist()
                            elif container == 'objarray':
                                cont = np.empty(n, dtype=object)
                                cont[:] = elems
                                cont = cont.reshape(cshape)
                            elif container == 'objarray.T':
                                # the same logical container presented as a transposed view of a C-ordered object array
                                tmp = np.empty(n, dtype=object)
                                tmp[:] = elems
                                tmp = tmp.reshape(cshape)
                                back = np.empty(cshape[::-1], dtype=object)
                                back[...] = tmp.T
                                cont = back.T
                            else:
                                tmp = np.empty(n, dtype=object)
                                tmp[:] = elems
                                cont = np.asfortranarray(tmp.reshape(cshape))
                            try:
                                y = UTPM.as_utpm(cont) if fn_name == 'as_utpm' else AU.ndarray2utpm(cont)
                                if fn_name == 'ndarray2utpm' and eshape != ():
                                    # ndarray2utpm is defined for scalar elements
                                    continue
                                ok = isinstance(y, UTPM) and y.data.shape == (D, P) + cshape + eshape
                                if ok:
                                    for k, idx in enumerate(np.ndindex(*cshape)):
                                        got = y.data[(slice(None), slice(None)) + idx]
                                        ok = ok and same(got, elems[k].data)
                                if not ok:
                                    c.fail('container', sub, {'container_shape': list(cshape), 'element_shape': list(eshape),
                                                              'dtype': str(getattr(getattr(y, 'data', None), 'dtype', None))})
                            except Exception as e:
                                if fn_name == 'ndarray2utpm' and eshape != ():
                                    continue
                                c.fail('container raises', sub, {'error': str(e)[:200], 'container_shape': list(cshape), 'element_shape': list(eshape)})


def run_blocks(c):
    for (r0, r1) in [(1, 1), (1, 2), (2, 1), (2, 3)]:
        for (c0, c1) in [(1, 1), (1, 2), (3, 1)]:
            for (D, P) in DPS[1:3]:
                c.ev(True)
                blocks = [[UTPM(vals((D, P, r, cc), r * 3 + cc)) for cc in (c0, c1)] for r in (r0, r1)]
                try:
                    y = UTPM.combine_blocks(blocks)
                    ref = np.concatenate([np.concatenate([b.data for b in row], axis=3) for row in blocks], axis=2)
                    if not same(y.data, ref):
                        c.fail('combine_blocks', 'value', {'rows': [r0, r1], 'cols': [c0, c1], 'D': D, 'P': P})
                except Exception as e:
                    c.fail('combine_blocks', 'raises', {'error': str(e)[:200], 'rows': [r0, r1], 'cols': [c0, c1]})


def run_shift(c):
    for shape in [(), (3,), (2, 2)]:
        for (D, P) in DPS:
            x = UTPM(vals((D, P) + shape, 4))
            for s in range(-D, D + 1):
                c.ev(s != 0)
                try:
                    y = x.shift(s)
                    ref = np.zeros_like(x.data)
                    for d in range(D):
                        if 0 <= d - s < D:
                            ref[d] = x.data[d - s]
                    if not same(y.data, ref):
                        c.fail('shift', 'definition', {'s': s, 'D': D})
                        continue
                    z = y.shift(-s)
                    ref2 = np.zeros_like(x.data)
                    for d in range(D):
                        if 0 <= d + s < D:        # coefficient d survives the first shift
                            ref2[d] = x.data[d]
                    if not same(z.data, ref2):
                        c.fail('shift', 'roundtrip', {'s': s, 'D': D})
                    if not np.array_equal(x.data, vals((D, P) + shape, 4)):
                        c.fail('shift', 'argument modified', {'s': s})
                    # out= forms: a separate buffer holding stale data, and the polynomial itself
                    buf = UTPM(np.zeros(x.data.shape))
                    r = x.shift(s, out=buf)
                    if not (r is buf and same(buf.data, ref)):
                        c.fail('shift', 'out=separate buffer', {'s': s, 'D': D})
                    xx = UTPM(x.data.copy())
                    xx.shift(s, out=xx)
                    if not same(xx.data[:D + min(s, 0)] if s <= 0 else xx.data[s:], ref[:D + min(s, 0)] if s <= 0 else ref[s:]):
                        c.fail('shift', 'out=self (retained part)', {'s': s, 'D': D})
                except Exception as e:
                    c.fail('shift', 'raises s%s0' % ('=' if s == 0 else ('<' if s < 0 else '>')), {'error': str(e)[:200], 's': s, 'D': D})


def run_coeffop(c):
    for (D, P) in DPS[1:]:
        x = UTPM(vals((D, P, 2, 3), 6))
        for sl, shp in [((slice(0, 1),), (1, P, 6)), ((slice(1, D), slice(0, 1)), (D - 1, 1, 3, 2)), ((slice(None), slice(None), 0), (D, P, 3)),
                        ((slice(None), -1), (D, 1, 2, 3)), ((-1,), (1, P, 2, 3)), ((slice(None), slice(None), -1, slice(None)), (D, P, 3)),
                        ((slice(None), slice(None), slice(None), -2), (D, P, 2)), ((slice(None), -1, -1), (D, 1, 3))]:
            c.ev(True)
            try:
                y = x.coeff_op(sl, shp)
                if not same(y.data, x.data[sl].reshape(shp)):
                    c.fail('coeff_op', 'value', {'D': D, 'P': P})
                # its pullback is the transpose in the library's pairing of adjoint and direction coefficients,
                # sum_c <xbar_(D-1-c), x'_c> = sum_k <ybar_(Dy-1-k), coeff_op(x')_k>, for a fresh x' and seed
                if not all(isinstance(e, slice) for e in sl):
                    continue            # the docstring asks for a tuple of slices; integer entries are checked in forward mode only
                xp = UTPM(vals((D, P, 2, 3), 11))
                yp = xp.coeff_op(sl, shp)
                ybar = UTPM(vals(yp.data.shape, 13))
                xbar = UTPM.pb_coeff_op(UTPM(ybar.data.copy()), x, sl, shp)
                lhs = sum(float(np.sum(xbar.data[D - 1 - k] * xp.data[k])) for k in range(D))
                Dy = yp.data.shape[0]
                rhs = sum(float(np.sum(ybar.data[Dy - 1 - k] * yp.data[k])) for k in range(Dy))
                c.ev(True)
                if abs(lhs - rhs) > 1e-12 * (1 + abs(rhs)):
                    c.fail('pb_coeff_op', 'not the transpose of coeff_op', {'D': D, 'P': P, 'slice': str(sl), 'lhs': lhs, 'rhs': rhs})
            except Exception as e:
                c.fail('coeff_op', 'raises', {'error': str(e)[:200]})


def all_pivots(N):
    return itertools.product(*[range(i, N) for i in range(N)])


def ref_perm(piv):
    """sequential row swaps: E A = L U with E = product of transpositions (i, piv[i]); then A = E^T L U"""
    N = len(piv)
    E = np.eye(N)
    for i, p in enumerate(piv):
        E[[i, p]] = E[[p, i]]
    sign = (-1) ** sum(1 for i, p in enumerate(piv) if p != i)
    return E.T, sign


def run_piv(c, N):
    for piv in all_pivots(N):
        c.ev(any(p != i for i, p in enumerate(piv)))
        P_ref, s_ref = ref_perm(piv)
        try:
            Pm = AU.piv2mat(np.array(piv))
            sd = AU.piv2det(np.array(piv))
            if not np.array_equal(Pm, P_ref):
                c.fail('piv2mat', 'N=%d' % N, {'piv': list(piv)})
            if sd != s_ref or abs(np.linalg.det(P_ref) - s_ref) > 1e-9:
                c.fail('piv2det', 'N=%d' % N, {'piv': list(piv), 'got': int(sd), 'expected': int(s_ref)})
            # list input, int32 input (what lu_factor returns)
            if not np.array_equal(AU.piv2mat(np.array(piv, dtype=np.int32)), P_ref):
                c.fail('piv2mat', 'int32 input', {'piv': list(piv)})
        except Exception as e:
            c.fail('piv raises', 'N=%d' % N, {'error': str(e)[:200], 'piv': list(piv)})
    c.out['samples'] = [{'N': N, 'pivot_vectors': int(np.prod(range(1, N + 1))), 'example': list(list(all_pivots(N))[-2]) if N > 1 else [0]}]


def run_utpmpiv(c):
    """UTPM-level helpers: every direction carries its own pivot vector"""
    for N in (2, 3, 4):
        pivs = list(all_pivots(N))
        for P in (1, 2, 3):
            for start in range(0, len(pivs), 1 if N < 4 else 5):
                chosen = [pivs[(start + 3 * k) % len(pivs)] for k in range(P)]
                c.ev(P > 1)
                D = 2
                pv = UTPM(np.zeros((D, P, N), dtype=int))
                for p in range(P):
                    pv.data[0, p] = chosen[p]
                try:
                    W = UTPM.piv2mat(pv)
                    dt = UTPM.piv2det(pv)
                    for p in range(P):
                        P_ref, s_ref = ref_perm(chosen[p])
                        if not np.array_equal(W.data[0, p], P_ref) or np.any(W.data[1:, p] != 0):
                            c.fail('UTPM.piv2mat', 'direction %s' % ('0' if p == 0 else '>0'), {'pivs': [list(q) for q in chosen], 'direction': p})
                            break
                        if dt.data[0, p] != s_ref:
                            c.fail('UTPM.piv2det', 'direction %s' % ('0' if p == 0 else '>0'), {'pivs': [list(q) for q in chosen], 'direction': p})
                            break
                except Exception as e:
                    c.fail('UTPM.piv raises', 'N=%d' % N, {'error': str(e)[:200]})


def run_lu(c, N):
    """every nonsingular matrix with entries in {-1,0,1,2} (N=2) / {-1,0,1} (N=3) through the real lu_factor"""
    ent = (-1, 0, 1, 2) if N == 2 else (-1, 0, 1)
    seen = set()
    for flat in itertools.product(ent, repeat=N * N):
        A = np.array(flat, dtype=float).reshape(N, N)
        if abs(np.linalg.det(A)) < 0.5:
            continue
        lu, piv = scipy.linalg.lu_factor(A)
        seen.add(tuple(int(v) for v in piv))
        c.ev(any(p != i for i, p in enumerate(piv)))
        Pm = AU.piv2mat(piv)
        L = np.tril(lu, -1) + np.eye(N)
        U = np.triu(lu)
        # exact rational product of the float factors
        Lq = [[Fraction(float(v)) for v in row] for row in L]
        Uq = [[Fraction(float(v)) for v in row] for row in U]
        LU = [[sum(Lq[i][k] * Uq[k][j] for k in range(N)) for j in range(N)] for i in range(N)]
        PLU = np.array([[float(sum(Fraction(int(Pm[i, k])) * LU[k][j] for k in range(N))) for j in range(N)] for i in range(N)])
        if not np.all(np.abs(PLU - A) <= 1e-12):
            c.fail('P L U = A', 'N=%d' % N, {'A': A.tolist(), 'piv': [int(v) for v in piv]})
        det = AU.piv2det(piv) * np.prod(np.diag(U))
        # exact determinant (integers)
        if N == 2:
            de = A[0, 0] * A[1, 1] - A[0, 1] * A[1, 0]
        else:
            de = round(float(np.linalg.det(A)))
        if abs(det - de) > 1e-9:
            c.fail('det = sign prod diag U', 'N=%d' % N, {'A': A.tolist(), 'piv': [int(v) for v in piv], 'got': float(det), 'expected': float(de)})
        # the UTPM determinant uses the same helpers
        dU = UTPM.det(UTPM(A.reshape(1, 1, N, N).copy())).data[0, 0]
        if abs(dU - de) > 1e-9:
            c.fail('UTPM.det', 'N=%d' % N, {'A': A.tolist(), 'got': float(dU), 'expected': float(de)})
    c.out['counters']['distinct_pivot_vectors_from_lu_factor_N%d' % N] = len(seen)


def conv(Xs, Ys, d):
    return sum(np.dot(Xs[i], Ys[d - i]) for i in range(d + 1))


def det_series(A, D):
    """exact truncated power series of det(A(t)) for integer coefficient matrices (Leibniz formula over Fractions)"""
    N = A[0].shape[0]
    tot = [Fraction(0)] * D
    for perm in itertools.permutations(range(N)):
        sgn = 1
        for i in range(N):
            for j in range(i + 1, N):
                if perm[i] > perm[j]:
                    sgn = -sgn
        ser = [Fraction(sgn)] + [Fraction(0)] * (D - 1)
        for i in range(N):
            f = [Fraction(int(A[d][i, perm[i]])) for d in range(D)]
            ser = [sum(ser[k] * f[d - k] for k in range(d + 1)) for d in range(D)]
        tot = [a + b for a, b in zip(tot, ser)]
    return tot


def run_lu2(c, N, tier):
    """the polynomial LU factorisation behind det / logdet: for every pivot vector lu_factor produces on small-integer base
    matrices, every D up to the bound and different pivot vectors in different directions,
    piv2mat(PIV) L U == A and det(A) == piv2det(PIV) prod(diag U) coefficient by coefficient"""
    ent = (-1, 0, 1, 2) if N == 2 else (-1, 0, 1) if N == 3 else (0, 1)
    reps = {}
    import random
    rng = random.Random(12345)
    if N <= 3:
        cand = itertools.product(ent, repeat=N * N)
    else:
        cand = (tuple(rng.choice((-2, -1, 0, 1, 2, 3)) for _ in range(N * N)) for _ in range(6000))
    for flat in cand:
        A0 = np.array(flat, dtype=float).reshape(N, N)
        if abs(np.linalg.det(A0)) < 0.5 or np.linalg.cond(A0) > 50:
            continue
        piv = tuple(int(v) for v in scipy.linalg.lu_factor(A0)[1])
        reps.setdefault(piv, [])
        if len(reps[piv]) < 2:
            reps[piv].append(A0)
    c.out['counters']['lu2_distinct_pivot_vectors_N%d' % N] = len(reps)
    bases = [(pv, A0) for pv in sorted(reps) for A0 in reps[pv]]
    Ds = (1, 2, 3, 4, 5, 6) if tier == 'quick' else (1, 2, 3, 4, 5, 6, 7, 8)
    for bi, (pv, A0) in enumerate(bases):
        for D in Ds:
            for P in (1, 2):
                data = np.zeros((D, P, N, N))
                for p in range(P):
                    data[0, p] = bases[(bi + 5 * p) % len(bases)][1]
                    for d in range(1, D):
                        data[d, p] = np.array([[((3 * i + 5 * j + 7 * d + 2 * p + bi) % 7) - 3 for j in range(N)] for i in range(N)], dtype=float)
                A = UTPM(data.copy())
                c.ev(D > 1)
                case = {'N': N, 'D': D, 'P': P, 'pivots': list(pv), 'base': bi}
                dsub = 'D<=3' if D <= 3 else 'D>3'
                try:
                    PIV, L, U = UTPM.lu2(A)
                    W = UTPM.piv2mat(PIV)
                    sg = UTPM.piv2det(PIV)
                    dt = UTPM.det(UTPM(data.copy()))
                except Exception as e:
                    c.fail('lu2 raises', dsub, dict(case, error=str(e)[:200]))
                    continue
                if not np.array_equal(A.data, data):
                    c.fail('lu2', 'argument modified', case)
                # the packed variant returns LAPACK's pivot vector as well: the same conversion must reproduce A
                try:
                    LUp, PIVp = UTPM.lu_factor(UTPM(data.copy()))
                    for p in range(P):
                        pv_p = np.asarray(PIVp.data[0, p], dtype=int)
                        Wp = AU.piv2mat(pv_p)
                        Lp = [np.tril(LUp.data[d, p], -1) + (np.eye(N) if d == 0 else 0) for d in range(D)]
                        Up = [np.triu(LUp.data[d, p]) for d in range(D)]
                        sc = 1.0 + max(np.abs(LUp.data[:, p]).max(), 1.0) ** 2 * D * N
                        badd = [d for d in range(D) if not np.all(np.abs(np.dot(Wp, conv(Lp, Up, d)) - data[d, p]) <= 1e-10 * sc)]
                        if badd or not np.array_equal(pv_p, np.asarray(PIV.data[0, p], dtype=int)):
                            c.fail('lu_factor P L U = A (polynomial)', dsub + ('|direction 0' if p == 0 else '|direction >0'),
                                   dict(case, coefficient=badd[0] if badd else -1, direction=p, pivots_lu_factor=[int(v) for v in pv_p]))
                            break
                except Exception as e:
                    c.fail('lu_factor raises', dsub, dict(case, error=str(e)[:200]))
                for p in range(P):
                    Ls = [L.data[d, p] for d in range(D)]
                    Us = [U.data[d, p] for d in range(D)]
                    scale = 1.0 + max(np.abs(L.data[:, p]).max(), 1.0) * max(np.abs(U.data[:, p]).max(), 1.0) * D * N
                    bad = None
                    for d in range(D):
                        PLU = np.dot(W.data[0, p], conv(Ls, Us, d))
                        if not np.all(np.abs(PLU - data[d, p]) <= 1e-10 * scale):
                            bad = ('P L U = A (polynomial)', d)
                            break
                        if np.any(np.triu(Ls[d], 0 if d else 1) != 0) and d > 0:
                            bad = ('L unit lower triangular', d)
                            break
                        if np.any(np.tril(Us[d], -1) != 0):
                            bad = ('U upper triangular', d)
                            break
                    if bad is None and (not np.array_equal(np.diag(Ls[0]), np.ones(N)) or np.any(np.triu(Ls[0], 1) != 0)):
                        bad = ('L unit lower triangular', 0)
                    if bad is None:
                        # det(A) = sign * prod(diag U) as power series, against the exact Leibniz series
                        ser = np.zeros(D)
                        ser[0] = 1.0
                        for i in range(N):
                            f = np.array([Us[d][i, i] for d in range(D)])
                            ser = np.array([np.dot(ser[:d + 1], f[:d + 1][::-1]) for d in range(D)])
                        ser = ser * sg.data[0, p]
                        ex = np.array([float(v) for v in det_series([data[d, p] for d in range(D)], D)])
                        dscale = 1.0 + np.abs(ex).max() + scale ** 2
                        if not np.all(np.abs(ser - ex) <= 1e-10 * dscale):
                            bad = ('det = sign prod diag U (polynomial)', int(np.argmax(np.abs(ser - ex))))
                        elif not np.all(np.abs(dt.data[:, p] - ex) <= 1e-10 * dscale):
                            bad = ('UTPM.det (polynomial)', int(np.argmax(np.abs(dt.data[:, p] - ex))))
                    if bad is not None:
                        c.fail('lu2 ' + bad[0], dsub + ('|direction 0' if p == 0 else '|direction >0'), dict(case, coefficient=bad[1], direction=p))
                        break
    c.out['samples'].append({'lu2': {'N': N, 'pivot_vectors': len(reps), 'D': list(Ds), 'P': [1, 2]}})


def run_unit(u):
    c = Ctx(u)
    k = u['kind']
    if k == 'basedirs':
        run_basedirs(c)
        run_decoupled(c)
    elif k == 'symvec':
        run_symvec(c)
        run_symvec_extreme(c)
        run_adjoints(c)
    elif k == 'asutpm':
        run_asutpm(c)
    elif k == 'blocks':
        run_blocks(c)
    elif k == 'shift':
        run_shift(c)
    elif k == 'coeffop':
        run_coeffop(c)
    elif k == 'piv':
        run_piv(c, u['N'])
    elif k == 'utpmpiv':
        run_utpmpiv(c)
    elif k == 'lu':
        run_lu(c, u['N'])
    elif k == 'lu2':
        run_lu2(c, u['N'], u['tier'])
    return c.out


def replay(case):
    out = run_unit({k: v for k, v in case.items() if k not in ('what', 'sub')})
    return [f for f in out['fails'] if f['case'].get('what') == case.get('what') and f['case'].get('sub') == case.get('sub')]
