"""C10  Zeroth coefficient, shapes and comparisons follow NumPy.

(1) every catalogue entry (amc/catalogue.py: built over the public function lists of globalfuncs / linalg / special /
    fft and the operators; public callables that are neither catalogued nor excluded with a reason are reported as
    `uncatalogued`) x (D,P) menu with DIFFERENT base points per direction: for each direction p the zeroth
    coefficient of every output equals the NumPy/SciPy function applied to the zeroth coefficients of the arguments
    of that direction; shape, len, size and ndim equal those of the NumPy result;
(2) all six comparison operators x operand pairs (UTPM,UTPM), (UTPM,scalar), (scalar,UTPM), (UTPM,ndarray),
    (ndarray,UTPM) x ALL sign patterns of the element-wise differences in {-1,0,1}^size for size <= 3 x P in {1,2}
    x D in {1,3}: bool(result) == numpy.all(op(x0, y0)) (for != only patterns where all() and any() agree are
    judged: with the default __ne__ Python returns `not (x == y)`);
(2b) the four arithmetic operators and their in-place forms x operand kinds (UTPM,UTPM), (UTPM,ndarray), (ndarray,UTPM)
    x ALL broadcast-compatible pairs of 16 shapes of rank 0..3 (including length-1 axes and axis lengths equal to P and
    to D) x (D,P) menu: shape attributes and zeroth coefficient per direction equal NumPy's;
(3) every catalogue entry called with plain arrays returns exactly what the reference returns (type, dtype, bytes).
"""
import itertools
import operator

import numpy as np

from .. import env
from .. import catalogue as CAT
import algopy
from algopy import UTPM

ID = 'C10'
RULE = ('cases = catalogue entry x (D,P) x direction (zeroth coefficient + shape attributes), comparison operator x operand '
        'kinds x sign pattern x (D,P), and catalogue entry on plain arrays; non-trivial = distinct cases with a non-scalar '
        'result or a mixed sign pattern')
ASSUMPTIONS = ['NumPy / SciPy are the executable specification', 'zeroth coefficients are compared bit-wise unless the entry '
               'declares an eps multiple (different but equivalent evaluation route, e.g. svd via eigh, pow via exp/log)']
DPS = [(1, 1), (2, 1), (3, 2), (4, 3)]
EPS = 2.0 ** -52
CHUNK = 12


def bounds(tier):
    return {'DP': DPS, 'catalogue_entries': len(CAT.ENTRIES), 'comparison_sizes': [1, 2, 3],
            'broadcast_grid': {'DP': BDPS, 'shapes': 16, 'operators': sorted(BINOPS), 'operand_kinds': ['U,U', 'U,arr', 'arr,U']}}


def units(tier, seed):
    us = []
    names = [e.name for e in CAT.ENTRIES]
    for i in range(0, len(names), CHUNK):
        us.append({'kind': 'entries', 'names': names[i:i + CHUNK], 'tier': tier, 'seed': seed})
    for opn in ('lt', 'le', 'gt', 'ge', 'eq', 'ne'):
        us.append({'kind': 'cmp', 'op': opn, 'tier': tier, 'seed': seed})
        us.append({'kind': 'cmpb', 'op': opn, 'tier': tier, 'seed': seed})
    for opn in sorted(BINOPS):
        for (D, P) in BDPS:
            us.append({'kind': 'bcast', 'op': opn, 'D': D, 'P': P, 'tier': tier, 'seed': seed})
    us.append({'kind': 'maxties', 'tier': tier, 'seed': seed})
    us.append({'kind': 'meta', 'tier': tier, 'seed': seed})
    return us


BINOPS = {'add': operator.add, 'sub': operator.sub, 'mul': operator.mul, 'div': operator.truediv,
          'iadd': operator.iadd, 'isub': operator.isub, 'imul': operator.imul, 'idiv': operator.itruediv}
BDPS = [(2, 1), (3, 2), (2, 3), (4, 4)]


def bshapes(D, P):
    """operand shapes: ranks 0..3, length-1 axes, and axis lengths chosen to collide with P and D (the leading axes of
    the coefficient array, which NumPy would align against if an operand of higher rank were passed through unpadded)"""
    return sorted(set([(), (1,), (3,), (1, 3), (2, 1), (2, 3), (4, 2, 3), (P,), (D,), (P, 3), (D, 3), (D, P), (P, P), (D, P, 3), (P, 2, 3), (1, 1, 3)]))


def bval(shape, p, salt):
    n = int(np.prod(shape)) if shape else 1
    v = np.array([(1.0 + ((7 * i + 3 * p + salt) % 11) / 8.0) * (-1) ** (i + p + salt) for i in range(n)])
    return v.reshape(shape)


def run_bcast(u, out):
    opn, D, P = u['op'], u['D'], u['P']
    op = BINOPS[opn]
    inplace = opn.startswith('i')
    shapes = bshapes(D, P)
    for sa in shapes:
        for sb in shapes:
            try:
                sr = np.broadcast_shapes(sa, sb)
            except ValueError:
                continue
            if inplace and sr != sa:
                continue
            for form in ('U,U', 'U,arr', 'arr,U'):
                if inplace and form == 'arr,U':
                    continue
                if form != 'U,U' and P > 1 and D > 2:
                    pass
                A = np.zeros((D, P) + sa)
                B = np.zeros((D, P) + sb)
                for p in range(P):
                    A[0, p] = bval(sa, p, 0)
                    B[0, p] = bval(sb, p if form == 'U,U' else 0, 5)
                    for d in range(1, D):
                        A[d, p] = bval(sa, p, d) * 0.5
                        B[d, p] = bval(sb, p, d + 2) * 0.25
                a = UTPM(A.copy()) if form != 'arr,U' else A[0, 0].copy()
                b = UTPM(B.copy()) if form != 'U,arr' else B[0, 0].copy()
                case = {'kind': 'bcast', 'op': opn, 'D': D, 'P': P, 'sa': list(sa), 'sb': list(sb), 'form': form}
                rank = 'rank(b)>rank(a)' if len(sb) > len(sa) else 'rank(b)<rank(a)' if len(sb) < len(sa) else 'same rank'
                sig = 'C10|bcast %s|%s|%s' % (opn, form, rank)
                out['evals'] += 1
                if sr != () and (sa != sb):
                    out['nontrivial'] += 1
                try:
                    r = op(a, b)
                except Exception as ex:
                    out['fails'].append({'sig': sig + '|raises', 'case': case, 'detail': {'error': '%s: %s' % (type(ex).__name__, str(ex)[:160])}})
                    continue
                if not isinstance(r, UTPM):
                    out['fails'].append({'sig': sig + '|not a UTPM', 'case': case, 'detail': {'type': type(r).__name__}})
                    continue
                if tuple(r.shape) != tuple(sr) or r.data.shape[:2] != (D, P) or r.ndim != len(sr) or r.size != int(np.prod(sr)):
                    out['fails'].append({'sig': sig + '|shape', 'case': case, 'detail': {'got': list(r.data.shape), 'expected': [D, P] + list(sr)}})
                    continue
                for p in range(P):
                    a0 = A[0, p] if form != 'arr,U' else A[0, 0]
                    b0 = B[0, p] if form != 'U,arr' else B[0, 0]
                    ro = BINOPS[opn.lstrip('i')](a0, b0)
                    if not close(r.data[0, p], ro, 2 if 'div' in opn else 0):
                        out['fails'].append({'sig': sig + '|zeroth coefficient', 'case': case,
                                             'detail': {'direction': p, 'got': np.asarray(r.data[0, p]).ravel()[:4].tolist(), 'expected': np.asarray(ro).ravel()[:4].tolist()}})
                        break


def arr0(a, p):
    return a.data[0, p] if isinstance(a, UTPM) else a


def close(a, b, atol):
    a = np.asarray(a)
    b = np.asarray(b)
    if a.shape != b.shape:
        return False
    if atol == 0:
        return np.array_equal(a, b)
    return bool(np.all(np.abs(a - b) <= atol * EPS * (1.0 + np.abs(b)) * max(1.0, float(np.max(np.abs(b))) if b.size else 1.0)))


def check_entry(e, D, P, seed, out):
    case = {'kind': 'entry', 'name': e.name, 'D': D, 'P': P, 'seed': seed}
    args = CAT.make_args(e, D, P, seed)
    out['evals'] += 1
    try:
        res = e.fn(*args)
    except Exception as ex:
        out['fails'].append({'sig': 'C10|%s|raises' % e.name, 'case': case, 'detail': {'error': '%s: %s' % (type(ex).__name__, str(ex)[:200])}})
        return
    outs = CAT.outputs(res)
    if e.ref is None:
        return
    for p in range(P):
        a0 = [np.array(arr0(a, p), copy=True) for a in args]
        try:
            r = e.ref(*a0)
        except Exception as ex:
            out['counters']['reference_raises'] = out['counters'].get('reference_raises', 0) + 1
            return
        routs = list(r) if isinstance(r, tuple) else [r]
        if len(routs) != len(outs):
            out['fails'].append({'sig': 'C10|%s|number of outputs' % e.name, 'case': case, 'detail': {'got': len(outs), 'expected': len(routs)}})
            return
        for k, (o, ro) in enumerate(zip(outs, routs)):
            ro = np.asarray(ro)
            if not isinstance(o, UTPM):
                out['fails'].append({'sig': 'C10|%s|output %d not a UTPM' % (e.name, k), 'case': case, 'detail': {'type': type(o).__name__}})
                return
            if p == 0:
                attrs = {'shape': (tuple(o.shape), tuple(ro.shape)), 'ndim': (o.ndim, ro.ndim), 'size': (o.size, ro.size)}
                if ro.ndim > 0:
                    try:
                        attrs['len'] = (len(o), len(ro))
                    except Exception as ex:
                        attrs['len'] = ('raises', len(ro))
                bad = dict((k2, v) for k2, v in attrs.items() if v[0] != v[1])
                if o.data.shape[:2] != (D, P):
                    bad['DP'] = (list(o.data.shape[:2]), [D, P])
                if bad:
                    out['fails'].append({'sig': 'C10|%s|%s' % (e.name, '+'.join(sorted(bad))), 'case': case,
                                         'detail': dict((k2, [str(v[0]), str(v[1])]) for k2, v in bad.items())})
                    return
                if ro.ndim > 0:
                    out['nontrivial'] += 1
            if not close(o.data[0, p], ro, e.atol):
                out['fails'].append({'sig': 'C10|%s|zeroth coefficient|direction %s' % (e.name, '0' if p == 0 else '>0'), 'case': case,
                                     'detail': {'output': k, 'direction': p, 'got': np.asarray(o.data[0, p]).ravel()[:4].tolist(),
                                                'expected': ro.ravel()[:4].tolist()}})
                return


def check_kept(e, D, P, seed, out):
    """a result handed out by one call stays what it is when the same function is called again on other data of the same
    shape (no shared work array behind the returned object), and the second result is right as well"""
    args = CAT.make_args(e, D, P, seed)
    args2 = CAT.make_args(e, D, P, seed + 7)
    try:
        r1 = CAT.outputs(e.fn(*args))
        snap = [np.array(o.data, copy=True) if isinstance(o, UTPM) else None for o in r1]
        r2 = CAT.outputs(e.fn(*args2))
    except Exception:
        return
    out['evals'] += 1
    case = {'kind': 'kept', 'name': e.name, 'D': D, 'P': P, 'seed': seed}
    for k, (o, sn) in enumerate(zip(r1, snap)):
        if sn is not None and not np.array_equal(o.data, sn, equal_nan=True):
            out['fails'].append({'sig': 'C10|%s|result of an earlier call changed by a later call' % e.name, 'case': case, 'detail': {'output': k}})
            return
    try:
        r1b = CAT.outputs(e.fn(*[UTPM(a.data.copy()) if isinstance(a, UTPM) else a for a in args]))
    except Exception:
        return
    for k, (o, sn) in enumerate(zip(r1, snap)):
        if sn is None:
            continue
        if isinstance(r1b[k], UTPM) and not np.array_equal(r1b[k].data, sn, equal_nan=True):
            out['fails'].append({'sig': 'C10|%s|same arguments, different result after another call' % e.name, 'case': case, 'detail': {'output': k}})
            return


def run_plain_extremes(u, out):
    """plain-array calls on data where a mathematically equivalent rewrite of the NumPy/SciPy call goes wrong: determinants
    that are negative or over- / underflow a double (logdet = slogdet[1]), and the zeroth coefficient of the polynomial
    version on the same data (branches must go the same way with and without derivative propagation)"""
    rng = np.random.default_rng(3)
    mats = [('negative determinant', np.array([[1.0, 2.0], [3.0, 1.0]]))]
    for n, sc in [(120, 1e3), (200, 1e-2), (60, 1e-6)]:
        Q, _ = np.linalg.qr(rng.normal(size=(n, n)))
        mats.append(('%dx%d scaled by %g' % (n, n, sc), Q * sc))
    for nm, A in mats:
        out['evals'] += 1
        out['nontrivial'] += 1
        case = {'kind': 'plainx', 'name': nm}
        exp = np.linalg.slogdet(A)[1]
        try:
            got = algopy.logdet(A.copy())
        except Exception as ex:
            out['fails'].append({'sig': 'C10|logdet|plain arrays|raises', 'case': case, 'detail': {'error': str(ex)[:160]}})
            continue
        if not (np.isfinite(got) and abs(got - exp) <= 1e-9 * (1 + abs(exp))):
            out['fails'].append({'sig': 'C10|logdet|plain arrays|differs from numpy.linalg.slogdet', 'case': case, 'detail': {'got': float(got), 'expected': float(exp)}})
            continue
        if np.linalg.slogdet(A)[0] > 0:
            z = algopy.logdet(UTPM(A.reshape((1, 1) + A.shape).copy())).data[0, 0]
            if not abs(z - exp) <= 1e-9 * (1 + abs(exp)):
                out['fails'].append({'sig': 'C10|logdet|zeroth coefficient|large matrices', 'case': case, 'detail': {'got': float(z), 'expected': float(exp)}})
    # vecsym / symvec on plain arrays against the documented row-wise order, N = 1..5
    for N in range(1, 6):
        v = np.arange(N * (N + 1) // 2, dtype=float) + 1.0
        out['evals'] += 1
        case = {'kind': 'plainx', 'name': 'vecsym N=%d' % N}
        A = algopy.vecsym(v.copy())
        ref = np.zeros((N, N))
        iu = np.triu_indices(N)
        ref[iu] = v
        ref = ref + np.triu(ref, 1).T
        zu = algopy.vecsym(UTPM(v.reshape(1, 1, -1).copy())).data[0, 0]
        if not (np.array_equal(A, ref) and np.array_equal(zu, ref) and np.array_equal(algopy.symvec(A), v)):
            out['fails'].append({'sig': 'C10|vecsym|plain arrays|order of the packed entries', 'case': case, 'detail': {'N': N}})


def run_maxties(u, out):
    """UTPM.max / UTPM.argmax on data whose maximal zeroth coefficient occurs several times: ALL value patterns over {0,1,2}
    for up to 4 elements, different patterns per direction; zeroth coefficient = numpy.max per direction"""
    for n in (1, 2, 3, 4):
        pats = list(itertools.product((0.0, 1.0, 2.0), repeat=n))
        for i, pat in enumerate(pats):
            for (D, P) in [(1, 1), (2, 2)]:
                X = np.zeros((D, P, n))
                for p in range(P):
                    X[0, p] = pats[(i + 5 * p) % len(pats)]
                if D > 1:
                    X[1] = np.arange(n * P).reshape(P, n) * 0.5 - 1.0
                out['evals'] += 1
                out['nontrivial'] += 1 if n > 1 else 0
                case = {'kind': 'maxties', 'n': n, 'pattern': list(pat), 'D': D, 'P': P}
                try:
                    m = UTPM.max(UTPM(X.copy()))
                except Exception as ex:
                    out['fails'].append({'sig': 'C10|UTPM.max|raises', 'case': case, 'detail': {'error': str(ex)[:160]}})
                    continue
                exp0 = np.array([np.max(X[0, p]) for p in range(P)])
                if not isinstance(m, UTPM) or m.data.shape != (D, P) or not np.array_equal(m.data[0], exp0):
                    ties = any(np.sum(X[0, p] == X[0, p].max()) > 1 for p in range(P))
                    out['fails'].append({'sig': 'C10|UTPM.max|zeroth coefficient|%s' % ('ties' if ties else 'unique maximum'), 'case': case,
                                         'detail': {'got': np.asarray(getattr(m, 'data', m)).tolist(), 'expected': exp0.tolist()}})
                    continue
                if D > 1:
                    # the higher coefficients are those of ONE maximal element (NumPy's argmax: the first one)
                    ok = all(any(np.array_equal(m.data[1:, p], X[1:, p, j]) for j in range(n) if X[0, p, j] == exp0[p]) for p in range(P))
                    if not ok:
                        out['fails'].append({'sig': 'C10|UTPM.max|higher coefficients are not those of a maximal element', 'case': case, 'detail': {}})


def check_plain(e, seed, out):
    """called with plain arrays only, the algopy-level function returns exactly what the reference returns"""
    if e.ref is None:
        return
    case = {'kind': 'plain', 'name': e.name, 'seed': seed}
    args = CAT.make_args(e, 1, 1, seed)
    a0 = [np.array(arr0(a, 0), copy=True) for a in args]
    a1 = [np.array(v, copy=True) for v in a0]
    out['evals'] += 1
    try:
        r = e.ref(*a0)
    except Exception:
        return
    try:
        g = e.fn(*a1)
    except Exception as ex:
        out['fails'].append({'sig': 'C10|%s|plain arrays|raises' % e.name, 'case': case, 'detail': {'error': '%s: %s' % (type(ex).__name__, str(ex)[:200])}})
        return
    gs = list(g) if isinstance(g, tuple) else [g]
    rs = list(r) if isinstance(r, tuple) else [r]
    ok = len(gs) == len(rs)
    if ok:
        for a, b in zip(gs, rs):
            if isinstance(a, UTPM):
                ok = False
                break
            a_, b_ = np.asarray(a), np.asarray(b)
            if a_.shape != b_.shape or a_.dtype != b_.dtype or not np.array_equal(a_, b_, equal_nan=True):
                if not (e.atol and a_.shape == b_.shape and close(a_, b_, e.atol)):
                    ok = False
    if not ok:
        out['fails'].append({'sig': 'C10|%s|plain arrays|differs from NumPy' % e.name, 'case': case,
                             'detail': {'got': str(gs[0])[:120], 'expected': str(rs[0])[:120]}})


OPS = {'lt': operator.lt, 'le': operator.le, 'gt': operator.gt, 'ge': operator.ge, 'eq': operator.eq, 'ne': operator.ne}


def run_cmp(u, out):
    opn = u['op']
    op = OPS[opn]
    for size, shape in [(1, ()), (1, (1,)), (2, (2,)), (3, (3,)), (2, (1, 2))]:
        for pattern in itertools.product((-1, 0, 1), repeat=size):
            for (D, P) in [(1, 1), (3, 1), (3, 2)]:
                for pkind in range(P if P > 1 else 1):
                    # x0 fixed, y0 = x0 - pattern*0.5 in direction pkind ; other directions: pattern reversed
                    x0 = (np.arange(size) * 0.75 - 0.5).reshape(shape)
                    X = np.zeros((D, P) + shape)
                    Y = np.zeros((D, P) + shape)
                    for p in range(P):
                        pat = np.array(pattern if p == pkind else pattern[::-1], dtype=float).reshape(shape)
                        X[0, p] = x0 + 0.25 * p
                        Y[0, p] = X[0, p] - 0.5 * pat
                    if D > 1:
                        X[1:] = 3.0          # higher coefficients must not matter
                        Y[1:] = -7.0
                    x, y = UTPM(X.copy()), UTPM(Y.copy())
                    forms = [('U,U', x, y, X[0], Y[0])]
                    if P == 1:
                        forms += [('U,arr', x, Y[0, 0].copy(), X[0], Y[0]), ('arr,U', X[0, 0].copy(), y, X[0], Y[0])]
                        if size == 1:
                            ys = float(Y[0, 0].ravel()[0])
                            xs = float(X[0, 0].ravel()[0])
                            forms += [('U,float', x, ys, X[0], ys), ('float,U', xs, y, xs, Y[0]),
                                      ('U,np.float64', x, np.float64(ys), X[0], ys)]
                    for fname, a, b, a0, b0 in forms:
                        expected = bool(np.all(op(a0, b0)))
                        if opn == 'ne' and bool(np.all(op(a0, b0))) != bool(np.any(op(a0, b0))):
                            continue
                        out['evals'] += 1
                        if len(set(pattern)) > 1:
                            out['nontrivial'] += 1
                        case = {'kind': 'cmp', 'op': opn, 'pattern': list(pattern), 'shape': list(shape), 'D': D, 'P': P, 'pkind': pkind, 'form': fname}
                        try:
                            got = op(a, b)
                            gb = bool(got)
                        except Exception as ex:
                            out['fails'].append({'sig': 'C10|cmp %s|%s|raises' % (opn, fname), 'case': case, 'detail': {'error': str(ex)[:160]}})
                            continue
                        if gb != expected or np.ndim(got) != 0:
                            out['fails'].append({'sig': 'C10|cmp %s|%s|%s' % (opn, fname, 'P=1' if P == 1 else 'P>1'), 'case': case,
                                                 'detail': {'got': str(got)[:60], 'expected': expected}})


def run_cmp_broadcast(u, out):
    """polynomial operands of DIFFERENT shapes (NumPy broadcasting): all sign patterns of the element-wise differences of the
    broadcast zeroth coefficients; higher coefficients are chosen so that they would decide every comparison the other way"""
    opn = u['op']
    op = OPS[opn]
    for sa, sb in [((2,), ()), ((), (2,)), ((2, 1), (1, 2)), ((1, 2), (2,)), ((2,), (1,)), ((3,), ())]:
        sr = np.broadcast_shapes(sa, sb)
        size = int(np.prod(sr))
        for pattern in itertools.product((-1, 0, 1), repeat=min(size, 3)):
            for (D, P) in [(1, 1), (3, 1), (3, 2)]:
                # y0 fixed per broadcast element is impossible in general: construct x0, y0 separately and read the pattern off
                na, nb = int(np.prod(sa)) if sa else 1, int(np.prod(sb)) if sb else 1
                X = np.zeros((D, P) + sa)
                Y = np.zeros((D, P) + sb)
                for p in range(P):
                    pat = pattern if p == 0 else pattern[::-1]
                    X[0, p] = (np.arange(na) * 0.75 - 0.5 + 0.25 * p).reshape(sa)
                    Y[0, p] = (np.array([X[0, p].ravel()[k % na] - 0.5 * pat[k % len(pat)] for k in range(nb)])).reshape(sb)
                if D > 1:
                    X[1:] = -1e3 if opn in ('gt', 'ge') else 1e3        # would reverse the outcome if they were looked at
                    Y[1:] = 1e3 if opn in ('gt', 'ge') else -1e3
                x, y = UTPM(X.copy()), UTPM(Y.copy())
                expected = bool(np.all([np.all(op(X[0, p], Y[0, p])) for p in range(P)]))
                anyv = bool(np.any([np.any(op(X[0, p], Y[0, p])) for p in range(P)]))
                if opn == 'ne' and expected != anyv:
                    continue
                if P > 1 and expected != anyv:
                    continue            # mixed outcomes over directions: not judged (see the same-shape unit)
                out['evals'] += 1
                out['nontrivial'] += 1
                case = {'kind': 'cmpb', 'op': opn, 'sa': list(sa), 'sb': list(sb), 'pattern': list(pattern), 'D': D, 'P': P}
                try:
                    gb = bool(op(x, y))
                except Exception as ex:
                    out['fails'].append({'sig': 'C10|cmp %s|broadcast|raises' % opn, 'case': case, 'detail': {'error': str(ex)[:160]}})
                    continue
                if gb != expected:
                    out['fails'].append({'sig': 'C10|cmp %s|broadcast|%s' % (opn, 'D=1' if D == 1 else 'D>1'), 'case': case,
                                         'detail': {'got': gb, 'expected': expected}})


def run_unit(u):
    out = {'evals': 0, 'nontrivial': 0, 'fails': [], 'samples': [], 'counters': {}, 'lists': {}}
    if u['kind'] == 'cmpb':
        run_cmp_broadcast(u, out)
        return out
    if u['kind'] == 'maxties':
        run_maxties(u, out)
        run_plain_extremes(u, out)
        return out
    if u['kind'] == 'entries':
        for nm in u['names']:
            e = CAT.BY_NAME[nm]
            for (D, P) in DPS:
                if D > e.maxD:
                    continue
                check_entry(e, D, P, u['seed'], out)
            check_plain(e, u['seed'], out)
            check_kept(e, 2, 2, u['seed'], out)
        out['samples'] = [{'entry': u['names'][0], 'DP': DPS}]
    elif u['kind'] == 'cmp':
        run_cmp(u, out)
    elif u['kind'] == 'bcast':
        run_bcast(u, out)
        out['samples'] = [{'op': u['op'], 'D': u['D'], 'P': u['P'], 'shapes': [list(x) for x in bshapes(u['D'], u['P'])]}]
    else:
        out['lists']['uncatalogued'] = CAT.uncatalogued()
        out['evals'] = 1
    return out


def replay(case):
    out = {'evals': 0, 'nontrivial': 0, 'fails': [], 'samples': [], 'counters': {}, 'lists': {}}
    if case['kind'] == 'entry':
        check_entry(CAT.BY_NAME[case['name']], case['D'], case['P'], case.get('seed', 0), out)
    elif case['kind'] == 'plain':
        check_plain(CAT.BY_NAME[case['name']], case.get('seed', 0), out)
    elif case['kind'] == 'kept':
        check_kept(CAT.BY_NAME[case['name']], case['D'], case['P'], case.get('seed', 0), out)
    elif case['kind'] == 'plainx':
        run_plain_extremes(case, out)
        out['fails'] = [f for f in out['fails'] if f['case'].get('name') == case.get('name')]
    elif case['kind'] == 'maxties':
        run_maxties(case, out)
        out['fails'] = [f for f in out['fails'] if all(f['case'].get(k) == case.get(k) for k in ('n', 'pattern', 'D', 'P'))]
    elif case['kind'] == 'cmpb':
        run_cmp_broadcast(case, out)
        out['fails'] = [f for f in out['fails'] if all(f['case'].get(k) == case.get(k) for k in ('sa', 'sb', 'pattern', 'D', 'P'))]
    elif case['kind'] == 'bcast':
        run_bcast(case, out)
        out['fails'] = [f for f in out['fails'] if all(f['case'].get(k) == case.get(k) for k in ('sa', 'sb', 'form'))]
    else:
        run_cmp({'op': case['op']}, out)
        out['fails'] = [f for f in out['fails'] if all(f['case'].get(k) == case.get(k) for k in ('pattern', 'shape', 'D', 'P', 'pkind', 'form'))]
    return out['fails']
