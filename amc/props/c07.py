"""C07  Linear-algebra functions propagate matrix Taylor polynomials correctly.

 * dot: operand ranks in {1,2,3}^2 (all NumPy-admissible pairs) x kinds {UTPM.UTPM, UTPM.ndarray, ndarray.UTPM} x (D,P);
   outer: all length pairs (equal and different) x kinds; trace.  Oracle: exact rational series arithmetic on dyadic
   values (bit-wise).
 * inv / solve / det / logdet: N in {1,2,3}; ALL matrices with entries in {-1,0,1,2} (N=2) resp. {-1,0,1} (N=3) that
   are nonsingular with condition number <= 50 (they realise every pivot vector lu_factor can return), packed along the
   direction axis in batches (so different base matrices - and pivot patterns - sit side by side in one call);
   right-hand sides with 1..3 columns, constant operand on either side; higher coefficients: dense dyadic fills, and
   all single-entry deviations E_ij t^k for one representative matrix per pivot pattern.
   Oracle: exact rational RESIDUAL  A(t) X(t) - B(t)  of algopy's float output (uniqueness of the solution makes the
   residual decisive), bounded by 64 eps x (|A| |X| + |B|) majorant x cond; det: Leibniz sum over permutations in exact
   series arithmetic (no LU); logdet: mpmath log composed with the exact det series (det_0 > 0).
 * expm: A_0 from a menu with ||A_0||_1 < 0.9 (Pade-7 range): reference sum_k A(t)^k / k! in 40-digit mpmath
   matrix-series arithmetic, tolerance 1e-12.
"""
import itertools
from fractions import Fraction

import numpy as np

from .. import env
import algopy
from algopy import UTPM
from ..ref import qseries as QS
from ..ref import mpref

mp = mpref.mp
ID = 'C07'
RULE = ('cases = (function, rank/shape combination, operand kinds, D, P, base matrix, coefficient fill); every nonsingular '
        'small-integer base matrix is used; evaluations = (case, direction) results compared; non-trivial = cases with D > 1 '
        'and a base matrix different from the identity; distinct = distinct (function, kinds, base matrix, fill, D)')
ASSUMPTIONS = ['exact rational residuals of the float outputs', 'condition number <= 50, N <= 3, D <= 6']
EPS = 2.0 ** -52
DMENU = {'quick': [1, 3, 4], 'thorough': [1, 2, 3, 4, 6]}
BATCH = 400


def bounds(tier):
    return {'N': [1, 2, 3], 'D': DMENU[tier], 'entries_N2': [-1, 0, 1, 2], 'entries_N3': [-1, 0, 1], 'cond_max': 50, 'dot_ranks': [1, 2, 3]}


_BASE = {}


def base_matrices(N):
    if N in _BASE:
        return _BASE[N]
    if N >= 4:
        # one small-integer matrix per PIVOT VECTOR that scipy.linalg.lu_factor produces (all cycle types of the row
        # permutation, e.g. two disjoint interchanges), two representatives each; searched deterministically
        import random
        import scipy.linalg
        rng = random.Random(4711 + N)
        reps = {}
        for _ in range(40000):
            A = np.array([rng.choice((-2, -1, 0, 1, 2, 3)) for _ in range(N * N)], dtype=float).reshape(N, N)
            if abs(np.linalg.det(A)) < 0.5 or np.linalg.cond(A) > 40:
                continue
            piv = tuple(int(v) for v in scipy.linalg.lu_factor(A)[1])
            if len(reps.setdefault(piv, [])) < 2:
                reps[piv].append(A)
        out = [A for piv in sorted(reps) for A in reps[piv]]
        _BASE[N] = out
        return out
    ent = {1: (-1, 1, 2), 2: (-1, 0, 1, 2), 3: (-1, 0, 1)}[N]
    out = []
    for flat in itertools.product(ent, repeat=N * N):
        A = np.array(flat, dtype=float).reshape(N, N)
        if abs(np.linalg.det(A)) < 0.5:
            continue
        if np.linalg.cond(A) > 50:
            continue
        out.append(A)
    _BASE[N] = out
    return out


DY = [1.0, -0.5, 2.0, 0.75, -1.5, 0.25, -2.0, 0.5, 1.5, -1.0, -0.25, 3.0]


def dyfill(shape, off):
    n = int(np.prod(shape, dtype=int))
    return np.array([DY[(off + 5 * i + i // 12) % 12] for i in range(n)]).reshape(shape)


def units(tier, seed):
    us = [{'kind': 'dot', 'tier': tier, 'seed': seed}, {'kind': 'outer', 'tier': tier, 'seed': seed}]
    for N in (1, 2, 3, 4):
        nb = len(base_matrices(N))
        for lo in range(0, nb, BATCH):
            for fn in ('inv', 'solve', 'det'):
                us.append({'kind': 'lin', 'fn': fn, 'N': N, 'lo': lo, 'hi': min(nb, lo + BATCH), 'tier': tier, 'seed': seed})
        us.append({'kind': 'deviations', 'N': N, 'tier': tier, 'seed': seed})
    us.append({'kind': 'expm', 'tier': tier, 'seed': seed})
    return us


# ---------------------------------------------------------------- exact matrix-series helpers
def mser(data_p):
    """data_p: (D, M, N) numeric -> list of D object arrays of Fractions"""
    return [QS.lift(data_p[d]) for d in range(data_p.shape[0])]


def ms_mul(A, B):
    D = len(A)
    out = []
    for d in range(D):
        acc = np.dot(A[0], B[d])
        for c in range(1, d + 1):
            acc = acc + np.dot(A[c], B[d - c])
        out.append(acc)
    return out


def ms_abs(A):
    return [QS.absq(a) for a in A]


def tofl(a):
    return QS.tofloat(np.asarray(a, dtype=object))


def det_series(A):
    """Leibniz sum over permutations in exact series arithmetic; A: list of D object (N,N) arrays"""
    D = len(A)
    N = A[0].shape[0]
    total = [Fraction(0)] * D
    maj = [Fraction(0)] * D
    for perm in itertools.permutations(range(N)):
        sign = 1
        for i in range(N):
            for j in range(i + 1, N):
                if perm[i] > perm[j]:
                    sign = -sign
        term = [Fraction(1)] + [Fraction(0)] * (D - 1)
        aterm = list(term)
        for i in range(N):
            col = [A[d][i, perm[i]] for d in range(D)]
            term = QS_smul(term, col, D)
            aterm = QS_smul(aterm, [abs(v) for v in col], D)
        for d in range(D):
            total[d] += sign * term[d]
            maj[d] += aterm[d]
    return total, maj


def QS_smul(a, b, D):
    out = [Fraction(0)] * D
    for i in range(D):
        if a[i] == 0:
            continue
        for j in range(D - i):
            if b[j] != 0:
                out[i + j] += a[i] * b[j]
    return out


class Ctx(object):
    def __init__(self, u):
        self.u = u
        self.out = {'evals': 0, 'keys': [], 'fails': [], 'samples': [], 'counters': {}, 'maxima': {}}
        self.seen = set()

    def fail(self, sig, case, detail):
        if sig in self.seen:
            self.out['counters']['further_failing_cases'] = self.out['counters'].get('further_failing_cases', 0) + 1
            return
        self.seen.add(sig)
        self.out['fails'].append({'sig': sig, 'case': dict(self.u, **case), 'detail': detail})


# ---------------------------------------------------------------- dot / outer / trace
DOT_SHAPES = [((3,), (3,)), ((2, 3), (3,)), ((3,), (3, 2)), ((2, 3), (3, 2)), ((3, 3), (3, 3)), ((2, 2, 3), (3,)), ((2, 2, 3), (3, 2)),
              ((2, 3), (2, 3, 2)), ((3,), (2, 3, 2)), ((2, 2, 3), (2, 3, 2)), ((1, 3), (3, 1)), ((3, 1), (1, 3))]


def run_dot(c, tier):
    for (sa, sb) in DOT_SHAPES:
        for kinds in ('UU', 'UA', 'AU'):
            for D in DMENU[tier]:
                for P in (1, 2):
                    X = dyfill((D, P) + sa, 1 + D)
                    Y = dyfill((D, P) + sb, 4 + P)
                    case = {'op': 'dot', 'shapes': [list(sa), list(sb)], 'kinds': kinds, 'D': D, 'P': P}
                    c.out['evals'] += 1
                    c.out['keys'].append('dot|%s|%s|%s|%d|%d' % (sa, sb, kinds, D, P))
                    if kinds == 'UA':
                        Y[1:] = 0
                        Y[:, 1:] = Y[:, :1]
                        a, b = UTPM(X.copy()), Y[0, 0].copy()
                    elif kinds == 'AU':
                        X[1:] = 0
                        X[:, 1:] = X[:, :1]
                        a, b = X[0, 0].copy(), UTPM(Y.copy())
                    else:
                        a, b = UTPM(X.copy()), UTPM(Y.copy())
                    try:
                        z = algopy.dot(a, b)
                    except Exception as ex:
                        c.fail('C07|dot|raises|ranks=%d,%d|%s' % (len(sa), len(sb), kinds), case, {'error': str(ex)[:160]})
                        continue
                    ref = np.zeros((D, P) + np.dot(X[0, 0], Y[0, 0]).shape)
                    for p in range(P):
                        xs, ys = mser(X[:, p]), mser(Y[:, p])
                        for d in range(D):
                            acc = np.dot(xs[0], ys[d])
                            for cc in range(1, d + 1):
                                acc = acc + np.dot(xs[cc], ys[d - cc])
                            ref[d, p] = tofl(acc)
                    if not isinstance(z, UTPM) or z.data.shape != ref.shape:
                        c.fail('C07|dot|shape|ranks=%d,%d|%s' % (len(sa), len(sb), kinds), case,
                               {'got': list(getattr(getattr(z, 'data', None), 'shape', [])), 'expected': list(ref.shape)})
                    elif not np.array_equal(z.data, ref):
                        bad = np.argwhere(z.data != ref)[0]
                        c.fail('C07|dot|value|ranks=%d,%d|%s|first_bad_order=%d' % (len(sa), len(sb), kinds, int(np.min(np.argwhere(z.data != ref)[:, 0]))), case,
                               {'index': [int(i) for i in bad], 'got': float(z.data[tuple(bad)]), 'expected': float(ref[tuple(bad)])})
    # trace
    for shape in [(2, 2), (3, 3), (2, 3), (3, 2), (4, 2), (5, 1), (1, 4), (6, 3)]:
        for D in DMENU[tier]:
            X = dyfill((D, 2) + shape, D)
            c.out['evals'] += 1
            t = algopy.trace(UTPM(X.copy()))
            ref = np.array([[np.trace(X[d, p]) for p in range(2)] for d in range(D)])
            if t.data.shape != ref.shape or not np.array_equal(t.data, ref):
                c.fail('C07|trace|value|%s' % ('square' if shape[0] == shape[1] else ('tall' if shape[0] > shape[1] else 'wide')), {'op': 'trace', 'shape': list(shape), 'D': D}, {})


def run_outer(c, tier):
    for (na, nb) in [(1, 1), (2, 2), (3, 3), (2, 3), (3, 2), (1, 3), (4, 2)]:
        for kinds in ('UU', 'UA', 'AU'):
            for D in DMENU[tier]:
                for P in (1, 2):
                    X = dyfill((D, P, na), 2 + D)
                    Y = dyfill((D, P, nb), 5 + P)
                    case = {'op': 'outer', 'lengths': [na, nb], 'kinds': kinds, 'D': D, 'P': P}
                    c.out['evals'] += 1
                    c.out['keys'].append('outer|%d|%d|%s|%d|%d' % (na, nb, kinds, D, P))
                    if kinds == 'UA':
                        Y[1:] = 0
                        Y[:, 1:] = Y[:, :1]
                        a, b = UTPM(X.copy()), Y[0, 0].copy()
                    elif kinds == 'AU':
                        X[1:] = 0
                        X[:, 1:] = X[:, :1]
                        a, b = X[0, 0].copy(), UTPM(Y.copy())
                    else:
                        a, b = UTPM(X.copy()), UTPM(Y.copy())
                    try:
                        z = algopy.outer(a, b)
                    except Exception as ex:
                        c.fail('C07|outer|raises|%s|%s' % ('equal' if na == nb else 'different', kinds), case, {'error': str(ex)[:160]})
                        continue
                    ref = np.zeros((D, P, na, nb))
                    for p in range(P):
                        for d in range(D):
                            for cc in range(d + 1):
                                ref[d, p] += np.outer(X[cc, p], Y[d - cc, p])
                    if z.data.shape != ref.shape or not np.array_equal(z.data, ref):
                        c.fail('C07|outer|value|%s|%s' % ('equal' if na == nb else 'different', kinds), case, {'got_shape': list(z.data.shape)})


def run_same_object(c, tier):
    """both operands the very same object: outer(x, x), dot(x, x) (vector), dot(A, A) (matrix) equal the product with an
    independent copy, bit for bit"""
    for D in DMENU[tier]:
        for P in (1, 2):
            for n in (1, 2, 3, 4):
                X = dyfill((D, P, n), 3 + D)
                A = dyfill((D, P, n, n), 4 + P)
                for nm, f, dat in (('outer(x,x)', algopy.outer, X), ('dot(x,x)', algopy.dot, X), ('dot(A,A)', algopy.dot, A)):
                    x = UTPM(dat.copy())
                    c.out['evals'] += 1
                    c.out['keys'].append('same|%s|%d|%d|%d' % (nm, n, D, P))
                    case = {'op': nm, 'n': n, 'D': D, 'P': P}
                    try:
                        got = f(x, x).data
                        ref = f(UTPM(dat.copy()), UTPM(dat.copy())).data
                    except Exception as ex:
                        c.fail('C07|%s same object|raises' % nm, case, {'error': str(ex)[:160]})
                        continue
                    if got.shape != ref.shape or not np.array_equal(got, ref):
                        c.fail('C07|%s same object|differs from the product with a copy' % nm, case, {})
                    elif not np.array_equal(x.data, dat):
                        c.fail('C07|%s same object|operand modified' % nm, case, {})


# ---------------------------------------------------------------- inv / solve / det / logdet
def check_residual(c, name, A, X, B, case, condmax):
    """A: (D,P,N,N) float, X: (D,P,N,K) float output, B: (D,P,N,K) float: exact residual A X - B per direction"""
    D, P = A.shape[:2]
    for p in range(P):
        As, Xs, Bs = mser(A[:, p]), mser(X[:, p]), mser(B[:, p])
        R = ms_mul(As, Xs)
        M = ms_mul(ms_abs(As), ms_abs(Xs))
        for d in range(D):
            res = np.abs(tofl(R[d] - Bs[d]))
            maj = tofl(M[d]) + np.abs(B[d, p])
            cond = np.linalg.cond(A[0, p])
            # entry-wise majorant plus a norm-wise floor: an entry of X whose exact value is 0 comes back as 1e-17 noise, and an
            # entry-wise majorant built from that noise alone is as small as the noise
            mjn = maj + float(np.max(maj)) + 1e-300
            tol = 64 * EPS * cond * mjn * (d + 1)
            rel = float(np.max(res / (cond * mjn)))
            c.out['maxima']['residual_over_cond_majorant'] = max(c.out['maxima'].get('residual_over_cond_majorant', 0.0), rel)
            if not np.all(res <= tol):
                c.fail('C07|%s|residual|first_bad_order=%d' % (name, d), dict(case, direction=p, A0=A[0, p].tolist()),
                       {'order': d, 'max_residual': float(res.max()), 'tolerance': float(tol.max())})
                return False
    return True


def higher(shape, D, P, off):
    h = dyfill((max(D - 1, 0), P) + shape, off)
    return h


def run_lin(c, u):
    N, fn, tier = u['N'], u['fn'], u['tier']
    bases = base_matrices(N)[u['lo']:u['hi']]
    P = len(bases)
    for D in DMENU[tier]:
        A = np.zeros((D, P, N, N))
        A[0] = np.array(bases)
        A[1:] = higher((N, N), D, P, N + D)
        case = {'fn': fn, 'D': D, 'lo': u['lo'], 'hi': u['hi']}
        c.out['evals'] += P
        c.out['keys'] += ['%s|%d|%d|%d' % (fn, N, D, u['lo'] + i) for i in range(P)]
        try:
            if fn == 'inv':
                X = algopy.inv(UTPM(A.copy())).data
                B = np.zeros_like(A)
                B[0] = np.eye(N)
                check_residual(c, 'inv', A, X, B, case, 50)
                # also X A = I
                check_residual(c, 'inv (left)', np.swapaxes(A, -1, -2), np.swapaxes(X, -1, -2), B, case, 50)
            elif fn == 'solve':
                for K in (1, 2, 3):
                    Bd = np.zeros((D, P, N, K))
                    Bd[:] = dyfill((D, P, N, K), K)
                    X = algopy.solve(UTPM(A.copy()), UTPM(Bd.copy())).data
                    check_residual(c, 'solve(U,U) K=%d' % K, A, X, Bd, dict(case, K=K), 50)
                # constant right-hand side
                Bc = dyfill((N, 2), 3)
                X = algopy.solve(UTPM(A.copy()), Bc.copy()).data
                Bfull = np.zeros((D, P, N, 2))
                Bfull[0] = Bc
                check_residual(c, 'solve(U,ndarray)', A, X, Bfull, case, 50)
                # constant matrix (the first base matrix of the batch, all directions) and polynomial right-hand side
                Ac = bases[len(bases) // 2]
                Bd = dyfill((D, 2, N, 2), 7)
                X = algopy.solve(Ac.copy(), UTPM(Bd.copy())).data
                Afull = np.zeros((D, 2, N, N))
                Afull[0] = Ac
                check_residual(c, 'solve(ndarray,U)', Afull, X, Bd, case, 50)
            elif fn == 'det':
                dt = algopy.det(UTPM(A.copy())).data
                ld = None
                pos = [p for p in range(P) if np.linalg.det(A[0, p]) > 0.5]
                if pos:
                    ld = algopy.logdet(UTPM(A[:, pos].copy())).data
                for p in range(P):
                    tot, maj = det_series(mser(A[:, p]))
                    ref = np.array([float(v) for v in tot])
                    mj = np.array([float(v) for v in maj])
                    err = np.abs(dt[:, p] - ref)
                    tol = 64 * EPS * np.maximum.accumulate(mj) * np.linalg.cond(A[0, p]) * (np.arange(D) + 1)
                    if not np.all(err <= tol):
                        d = int(np.argmax(~(err <= tol)))
                        c.fail('C07|det|value|first_bad_order=%d' % d, dict(case, direction=p, A0=A[0, p].tolist()),
                               {'order': d, 'got': float(dt[d, p]), 'expected': float(ref[d])})
                        break
                    if p in pos:
                        k = pos.index(p)
                        cf = mpref.taylor_coeffs('log', mp.log, float(ref[0]), D)
                        Xs = ref.reshape(D, 1).copy()
                        yr, mjr = mpref.compose(cf, Xs)
                        e2 = np.abs(ld[:, k] - np.asarray(yr[:, 0], dtype=float))
                        t2 = 1e-11 * (np.asarray(mjr[:, 0], dtype=float) + np.abs(np.asarray(yr[:, 0], dtype=float)) + 1.0) * np.linalg.cond(A[0, p])
                        if not np.all(e2 <= t2):
                            d = int(np.argmax(~(e2 <= t2)))
                            c.fail('C07|logdet|value|first_bad_order=%d' % d, dict(case, direction=p, A0=A[0, p].tolist()),
                                   {'order': d, 'got': float(ld[d, k]), 'expected': float(yr[d, 0])})
                            break
                        # the same direction ALONE (a structure test on the base point - symmetric, positive definite - can only
                        # take effect when every direction of the call passes it)
                        l1 = algopy.logdet(UTPM(A[:, p:p + 1].copy())).data[:, 0]
                        c.out['evals'] += 1
                        e3 = np.abs(l1 - np.asarray(yr[:, 0], dtype=float))
                        if not np.all(e3 <= t2):
                            d = int(np.argmax(~(e3 <= t2)))
                            sym0 = bool(np.array_equal(A[0, p], A[0, p].T))
                            c.fail('C07|logdet|single direction|%s base point|first_bad_order=%d' % ('symmetric' if sym0 else 'general', d),
                                   dict(case, direction=p, A0=A[0, p].tolist()), {'order': d, 'got': float(l1[d]), 'expected': float(yr[d, 0])})
                            break
        except Exception as ex:
            c.fail('C07|%s|raises|N=%d' % (fn, N), case, {'error': '%s: %s' % (type(ex).__name__, str(ex)[:160])})
    c.out['samples'] = [{'function': fn, 'N': N, 'base_matrices_in_unit': P, 'example_base': bases[P // 3].tolist(), 'D': DMENU[tier]}]


def run_deviations(c, u):
    """one representative base matrix per pivot vector; all single-entry deviations E_ij t^k (and a dense fill)"""
    import scipy.linalg
    N, tier = u['N'], u['tier']
    reps = {}
    for A in base_matrices(N):
        piv = tuple(int(v) for v in scipy.linalg.lu_factor(A)[1])
        reps.setdefault(piv, A)
    c.out['counters']['pivot_patterns_N%d' % N] = len(reps)
    D = max(DMENU[tier])
    for piv, A0 in sorted(reps.items()):
        devs = [(i, j, k) for i in range(N) for j in range(N) for k in range(1, D)]
        P = len(devs)
        A = np.zeros((D, P, N, N))
        A[0] = A0
        for p, (i, j, k) in enumerate(devs):
            A[k, p, i, j] = 1.5
        case = {'fn': 'deviations', 'piv': list(piv), 'D': D}
        c.out['evals'] += P
        c.out['keys'] += ['dev|%d|%s|%d' % (N, piv, p) for p in range(P)]
        try:
            X = algopy.inv(UTPM(A.copy())).data
            B = np.zeros_like(A)
            B[0] = np.eye(N)
            check_residual(c, 'inv (single-entry deviations)', A, X, B, case, 50)
            dt = algopy.det(UTPM(A.copy())).data
            for p in range(P):
                tot, maj = det_series(mser(A[:, p]))
                ref = np.array([float(v) for v in tot])
                if not np.all(np.abs(dt[:, p] - ref) <= 64 * EPS * (np.maximum.accumulate(np.array([float(v) for v in maj])) + 1) * 50 * D):
                    c.fail('C07|det|value|single-entry deviations', dict(case, direction=p), {'got': dt[:, p].tolist(), 'expected': ref.tolist()})
                    break
            Bd = dyfill((D, P, N, 2), 2)
            X = algopy.solve(UTPM(A.copy()), UTPM(Bd.copy())).data
            check_residual(c, 'solve (single-entry deviations)', A, X, Bd, case, 50)
        except Exception as ex:
            c.fail('C07|deviations|raises|N=%d' % N, case, {'error': '%s: %s' % (type(ex).__name__, str(ex)[:160])})
        # all 2^(D-1) SUPPORT patterns of the higher coefficients (which orders are exactly zero), for A and for B
        pats = list(itertools.product((0, 1), repeat=D - 1))
        P = len(pats)
        A = np.zeros((D, P, N, N))
        A[0] = A0
        dense = dyfill((D - 1, P, N, N), 3)
        for p, pat in enumerate(pats):
            for k, on in enumerate(pat):
                if on:
                    A[k + 1, p] = dense[k, p]
        Bd = dyfill((D, P, N, 2), 5)
        Bs = Bd.copy()
        for p, pat in enumerate(pats):
            for k, on in enumerate(pat[::-1]):
                if not on:
                    Bs[k + 1, p] = 0
        case = {'fn': 'support-patterns', 'piv': list(piv), 'D': D}
        c.out['evals'] += 3 * P
        c.out['keys'] += ['supp|%d|%s|%d' % (N, piv, p) for p in range(P)]
        try:
            X = algopy.inv(UTPM(A.copy())).data
            Bi = np.zeros_like(A)
            Bi[0] = np.eye(N)
            check_residual(c, 'inv (support patterns)', A, X, Bi, case, 50)
            X = algopy.solve(UTPM(A.copy()), UTPM(Bs.copy())).data
            check_residual(c, 'solve (support patterns)', A, X, Bs, case, 50)
            dt = algopy.det(UTPM(A.copy())).data
            for p in range(P):
                tot, maj = det_series(mser(A[:, p]))
                ref = np.array([float(v) for v in tot])
                if not np.all(np.abs(dt[:, p] - ref) <= 64 * EPS * (np.maximum.accumulate(np.array([float(v) for v in maj])) + 1) * 50 * D):
                    c.fail('C07|det|value|support patterns', dict(case, direction=p, pattern=list(pats[p])), {'got': dt[:, p].tolist(), 'expected': ref.tolist()})
                    break
        except Exception as ex:
            c.fail('C07|support patterns|raises|N=%d' % N, case, {'error': '%s: %s' % (type(ex).__name__, str(ex)[:160])})
        # memory layouts: the same matrices presented as transposing views (each (d,p) slice Fortran-contiguous) and as
        # strided views; results must be identical and the operand untouched
        if N >= 2:
            Ad = np.zeros((D, 2, N, N))
            Ad[0] = A0
            Ad[1:] = dyfill((D - 1, 2, N, N), 9)
            for lay in ('F', 'strided'):
                for fname, f in (('inv', algopy.inv), ('det', algopy.det), ('logdet', algopy.logdet), ('solve', lambda a: algopy.solve(a, UTPM(dyfill((D, 2, N, 2), 4))))):
                    if fname == 'logdet' and np.linalg.det(A0) < 0.5:
                        continue
                    if lay == 'F':
                        x = UTPM(np.ascontiguousarray(np.swapaxes(Ad, -1, -2))).T
                    else:
                        big = np.full((D, 2, N, 2 * N), 7.5)
                        big[..., ::2] = Ad
                        x = UTPM(big[..., ::2])
                    snap = x.data.copy()
                    c.out['evals'] += 1
                    cs = {'fn': fname, 'layout': lay, 'piv': list(piv), 'D': D}
                    try:
                        r1 = f(x)
                        r2 = f(x)                       # the same object again
                        r0 = f(UTPM(Ad.copy()))
                    except Exception as ex:
                        c.fail('C07|%s|raises|layout %s' % (fname, lay), cs, {'error': str(ex)[:160]})
                        continue
                    if not np.array_equal(x.data, snap):
                        c.fail('C07|%s|operand modified|layout %s' % (fname, lay), cs, {})
                    elif not (np.allclose(r1.data, r0.data, rtol=1e-12, atol=1e-13) and np.allclose(r2.data, r0.data, rtol=1e-12, atol=1e-13)):
                        c.fail('C07|%s|result depends on memory layout / repeated call|layout %s' % (fname, lay), cs, {})


def run_expm(c, u):
    tier = u['tier']
    menu = [np.array([[0.2, -0.3], [0.1, 0.25]]), np.array([[0.0, 0.4], [-0.4, 0.0]]),
            np.array([[0.1, -0.2, 0.05], [0.3, 0.0, -0.25], [-0.15, 0.2, 0.1]]), np.array([[0.25]]),
            np.array([[0.3, 0.3, 0.0], [0.0, 0.3, 0.3], [0.0, 0.0, 0.3]])]
    old = mp.mp.dps
    mp.mp.dps = 40
    # the same base points scaled to small norms (an implementation may pick its approximation order from ||A_0||, which
    # guarantees the VALUE only), with degrees up to 8
    small = [(m * sc, (6, 8)) for m in menu[:3] for sc in (0.02, 1e-3, 1e-6)] + [(np.zeros((2, 2)), (4, 8))]
    try:
        for A0, Ds in [(m, DMENU[tier]) for m in menu] + small:
            N = A0.shape[0]
            for D in Ds:
                P = 2
                A = np.zeros((D, P, N, N))
                A[0, 0] = A0
                A[0, 1] = A0.T * 0.5
                A[1:] = dyfill((max(D - 1, 0), P, N, N), N) * 0.25
                case = {'fn': 'expm', 'N': N, 'D': D}
                c.out['evals'] += P
                c.out['keys'] += ['expm|%d|%d|%d|%s' % (N, D, p, A0.tolist()) for p in range(P)]
                try:
                    E = algopy.expm(UTPM(A.copy())).data
                except Exception as ex:
                    c.fail('C07|expm|raises', case, {'error': str(ex)[:160]})
                    continue
                for p in range(P):
                    As = [np.array([[mp.mpf(float(v)) for v in row] for row in A[d, p]], dtype=object).reshape(N, N) for d in range(D)]
                    ident = np.array([[mp.mpf(int(i == j)) for j in range(N)] for i in range(N)], dtype=object)
                    zero = ident * 0
                    term = [ident] + [zero for _ in range(D - 1)]
                    tot = [t.copy() for t in term]
                    for k in range(1, 40):
                        term = [t / k for t in ms_mul(term, As)]
                        tot = [a + b for a, b in zip(tot, term)]
                    ref = np.array([[[float(v) for v in row] for row in tot[d]] for d in range(D)])
                    err = np.abs(E[:, p] - ref)
                    scale = 1.0 + np.abs(ref).max()
                    c.out['maxima']['expm_error'] = max(c.out['maxima'].get('expm_error', 0.0), float(err.max() / scale))
                    if not np.all(err <= 1e-12 * scale):
                        d = int(np.argmax(err.reshape(D, -1).max(axis=1) > 1e-12 * scale))
                        c.fail('C07|expm|value|first_bad_order=%d' % d, dict(case, direction=p), {'max_error': float(err.max())})
                        break
    finally:
        mp.mp.dps = old


def run_unit(u):
    c = Ctx(u)
    k = u['kind']
    if k == 'dot':
        run_dot(c, u['tier'])
    elif k == 'outer':
        run_outer(c, u['tier'])
        run_same_object(c, u['tier'])
    elif k == 'lin':
        run_lin(c, u)
    elif k == 'deviations':
        run_deviations(c, u)
    else:
        run_expm(c, u)
    return c.out


def replay(case):
    u = dict((k, v) for k, v in case.items() if k in ('kind', 'fn', 'N', 'lo', 'hi', 'tier', 'seed'))
    u.setdefault('tier', 'quick')
    return run_unit(u)['fails']
