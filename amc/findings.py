"""known_findings.json: committed, read-only at run time.

Entries: {"property": "C03", "signature": "<exact signature or fnmatch pattern>", "status": "known"|"fixed",
          "what": "...", "commit": "<sha, for fixed>"}.
Only status == "known" suppresses a VIOLATION (turning it into a KNOWN-FINDING line); "fixed" entries are
documentation and suppress nothing, so a regression of a repaired defect is reported again."""
import os
import json
import re

from . import env

PATH = os.path.join(env.VERIF, 'known_findings.json')


def load(pid):
    if not os.path.exists(PATH):
        return []
    data = json.load(open(PATH))
    return [e for e in data.get('findings', []) if e.get('property') == pid and e.get('status') == 'known']


def _wild(pat, text):
    if pat == text:
        return True
    if '*' in pat:      # '*' is the only wildcard ('[' and '?' occur literally in signatures)
        rx = '.*'.join(re.escape(part) for part in pat.split('*'))
        return re.fullmatch(rx, text) is not None
    return False


def match(entries, sig, attribs=()):
    """An entry matches a failure if its `signature` pattern matches the failure's signature, or - for
    failures of composite cases (programs) - if its optional `attrib` pattern matches one of the
    attribution strings of the failure (e.g. 'instr:<instruction>|D1=ok': the failing program contains
    the known-bad instruction and fails in the same way, from order 2 on only)."""
    for e in entries:
        if _wild(e['signature'], sig):
            return e
        if e.get('attrib'):
            for a in attribs:
                if _wild(e['attrib'], a):
                    return e
    return None
