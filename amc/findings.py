"""known_findings.json: committed, read-only at run time.

Entries: {"property": "C03", "signature": "<exact signature or fnmatch pattern>", "status": "known"|"fixed",
          "what": "...", "commit": "<sha, for fixed>"}.
Only status == "known" suppresses a VIOLATION (turning it into a KNOWN-FINDING line); "fixed" entries are
documentation and suppress nothing, so a regression of a repaired defect is reported again."""
import os
import json
import fnmatch

from . import env

PATH = os.path.join(env.VERIF, 'known_findings.json')


def load(pid):
    if not os.path.exists(PATH):
        return []
    data = json.load(open(PATH))
    return [e for e in data.get('findings', []) if e.get('property') == pid and e.get('status') == 'known']


def match(entries, sig):
    for e in entries:
        pat = e['signature']
        if pat == sig or (any(c in pat for c in '*?') and fnmatch.fnmatchcase(sig, pat)):
            return e
    return None
