"""Explicit-state breadth-first search over event histories of a live object that cannot be copied.

A state is represented by a history reaching it; successors are built by replaying history+[event]
on a fresh object (live CGraph nodes hold views of one another, so deepcopy would not be faithful).
States are merged on a canonical key of ALL mutable state reachable from the object; since the code is
deterministic, two histories with equal keys have equal futures, so merging is sound.
"""
import collections
import hashlib

import numpy as np


def array_key(h, a, bases):
    """feed bytes, dtype, shape and aliasing structure (base identity rank, offset, strides) of a"""
    if isinstance(a, np.ndarray):
        b = a
        while isinstance(b.base, np.ndarray):
            b = b.base
        bid = bases.setdefault(id(b), len(bases))
        off = a.__array_interface__['data'][0] - b.__array_interface__['data'][0]
        h.update(repr((a.shape, a.dtype.str, a.strides, bid, off)).encode())
        h.update(np.ascontiguousarray(a).tobytes())
    else:
        h.update(repr(a).encode())


class Result(object):
    def __init__(self):
        self.states = 0
        self.transitions = 0
        self.closed = False
        self.max_depth = 0
        self.violations = []      # (history, event, detail)
        self.sample = None


def bfs(build, enabled, step, key, depth_bound, check, max_states=200000, max_violations=4):
    """build() -> fresh object in its initial state
    enabled(obj, hist) -> list of events applicable in the state reached by hist (obj is in that state)
    step(obj, event) -> observation (executes the event on the real object)
    key(obj) -> canonical state key
    check(hist, event, obj_before_key, observation, obj) -> None or a detail dict (violation)
    """
    res = Result()

    def replay(hist):
        obj = build()
        for ev in hist:
            step(obj, ev)
        return obj

    obj = build()
    seen = {key(obj): ()}
    frontier = collections.deque([()])
    res.closed = True
    while frontier:
        hist = frontier.popleft()
        obj = replay(hist)
        evs = enabled(obj, hist)
        if len(hist) >= depth_bound:
            if evs:
                res.closed = False     # unexplored successors remain beyond the bound
            continue
        for ev in evs:
            obj = replay(hist)
            try:
                obs = step(obj, ev)
                exc = None
            except Exception as e:     # noqa
                obs, exc = None, e
            res.transitions += 1
            detail = check(hist, ev, obs, exc, obj)
            if detail is not None:
                res.violations.append((list(hist), ev, detail))
                if len(res.violations) >= max_violations:
                    # enough counterexamples for this object: stop (a broken implementation may also be very slow)
                    res.closed = False
                    res.states = len(seen)
                    return res
                continue               # do not explore beyond a violating transition
            if exc is not None:
                continue
            k = key(obj)
            if k not in seen:
                seen[k] = hist + (ev,)
                res.max_depth = max(res.max_depth, len(hist) + 1)
                if len(seen) >= max_states:
                    res.closed = False
                    frontier.clear()
                    break
                frontier.append(hist + (ev,))
                if res.sample is None or len(hist) + 1 > len(res.sample):
                    res.sample = list(hist + (ev,))
    res.states = len(seen)
    return res
