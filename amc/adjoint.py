"""Reverse-vs-forward oracle shared by C03 (and used as a reference by C04/C06/C11/C12).

For a program F, an input curve x(t) (D coefficients, P directions) and a direction polynomial v(t),
  F(x(t) + t^D v(t)) = F(x(t)) + t^D F'(x(t)) v(t) + O(t^2D),
so forward propagation of [x_0..x_{D-1}, v_0..v_{D-1}] at 2D coefficients, minus the propagation of
[x, 0], gives in coefficients D..2D-1 exactly  (F'(x(t)) v(t)) mod t^D  - from forward mode alone.
The reverse sweep must satisfy  <xbar, v>_d = <ybar, F'(x) v>_d  for every d < D, where
<a, b>_d = sum_{c<=d} sum_elements a_c * b_{d-c}.
"""
import numpy as np

from . import env  # noqa: F401
from . import programs as PR
import algopy
from algopy import UTPM, Function, CGraph


class Outcome(Exception):
    def __init__(self, cls, msg=''):
        Exception.__init__(self, cls + ':' + msg)
        self.cls = cls
        self.msg = msg


def forward(prog, data):
    y, _ = PR.run(prog, UTPM(np.array(data, copy=True)))
    return y


def jv_forward(prog, xdata, vdata):
    """(F'(x(t)) v(t)) mod t^D from forward propagation at 2D coefficients."""
    D = xdata.shape[0]
    big = np.concatenate([xdata, vdata])
    base = np.concatenate([xdata, np.zeros_like(vdata)])
    yb = forward(prog, big)
    y0 = forward(prog, base)
    if not isinstance(yb, UTPM):
        raise Outcome('nonutpm-forward')
    return yb.data[D:] - y0.data[D:], y0.data[:D]


def classify_pullback_exception(e):
    msg = str(e)
    if "has no attribute 'pb_" in msg:
        return 'unsupported'
    if 'NotImplementedError' in msg or isinstance(e, NotImplementedError):
        return 'unsupported'
    if 'AssertionError' in msg and 'supported' in msg:
        return 'unsupported'        # explicit, documented refusal (e.g. svd of a tall matrix)
    return 'crash'


def last_line(e):
    lines = [l for l in str(e).strip().splitlines() if l.strip()]
    return (lines[-1] if lines else type(e).__name__)[:200]


def reverse(prog, xdata, ybar_fn):
    """Record prog at UTPM(xdata) on a fresh graph, run ONE reverse sweep seeded by ybar_fn(y.x.data.shape).
    Returns (xbar.data, y.data, ybar.data, cg).  Raises Outcome for classified non-results."""
    try:
        cg, x, y = PR.record(prog, UTPM(np.array(xdata, copy=True)))
    except Exception as e:
        Function.cgraph = None
        raise Outcome('untraceable', last_line(e))
    if not isinstance(y, Function) or not isinstance(y.x, UTPM):
        raise Outcome('nonutpm-out', type(getattr(y, 'x', y)).__name__)
    ybar = UTPM(ybar_fn(y.x.data.shape, y.x.data.dtype))
    ybar_copy = ybar.data.copy()
    try:
        cg.pullback([ybar])
    except Exception as e:
        raise Outcome(classify_pullback_exception(e), last_line(e))
    xb = x.xbar
    if not isinstance(xb, UTPM):
        raise Outcome('crash', 'xbar is %s' % type(xb).__name__)
    return xb.data.copy(), y.x.data.copy(), ybar_copy, cg


def pairing(a, b, D, P):
    """<a,b>_d per direction: (D,P) array, plus the majorant (sum of |terms|)."""
    out = np.zeros((D, P))
    maj = np.zeros((D, P))
    a = a.reshape(D, P, -1)
    b = b.reshape(D, P, -1)
    for d in range(D):
        for c in range(d + 1):
            t = a[c] * b[d - c]
            out[d] += np.real(t).sum(axis=1)
            maj[d] += np.abs(t).sum(axis=1)
    return out, maj


def dense(shape, seed, salt):
    rng = np.random.default_rng(7919 * (seed + 1) + salt)
    return np.round(rng.uniform(-1, 1, size=shape) * 64) / 64.0


def check_dense(prog, xdata, seed, K=2, tol=1e-8):
    """Adjoint identity for K dense (non-symmetric, non-zero at all orders) seed/direction pairs, packed along
    the direction axis.  Returns (ok, worst_scaled_error, detail).  Raises Outcome for classified non-results."""
    D, P = xdata.shape[:2]
    xp = np.concatenate([xdata] * K, axis=1)           # (D, P*K, NX)
    v = dense(xp.shape, seed, 1)
    try:
        Jv, y0 = jv_forward(prog, xp, v)
    except Outcome:
        raise
    except Exception as e:
        raise Outcome('forward-fails', last_line(e))
    if np.iscomplexobj(y0) and np.abs(np.imag(y0)).max() > 0:
        raise Outcome('complex-out')
    xbar, ydata, ybar, cg = reverse(prog, xp, lambda shp, dt: dense(shp, seed, 2))
    if xbar.shape != xp.shape:
        raise Outcome('crash', 'xbar shape %s' % (xbar.shape,))
    lhs, m1 = pairing(xbar, v, D, P * K)
    rhs, m2 = pairing(ybar, Jv, D, P * K)
    scale = 1.0 + m1 + m2
    err = np.abs(lhs - rhs) / scale
    if not np.all(np.isfinite(err)):
        return False, float('inf'), {'reason': 'non-finite adjoint', 'lhs': lhs.tolist(), 'rhs': rhs.tolist()}
    w = float(err.max())
    if w > tol:
        d, p = np.unravel_index(np.argmax(err), err.shape)
        return False, w, {'order': int(d), 'direction': int(p), 'lhs': float(lhs[d, p]), 'rhs': float(rhs[d, p]),
                          'first_bad_order': int(np.min(np.nonzero(err > tol)[0]))}
    return True, w, None


def check_multi(prog, xdata, seed, tol=1e-8):
    """Several independents and several dependents: every prelude register the program reads is an independent of its
    own (plus one independent the program never touches, which is also returned as a dependent), and every
    intermediate result that is a real Taylor polynomial not sharing memory with another dependent is a dependent.
    Identity: sum_r <xbar_r, v_r>_d = sum_k <ybar_k, F_k'(x) v>_d.  Returns (ok, worst, detail)."""
    D, P = xdata.shape[:2]
    used = sorted(set(r for ins in prog for r in ins[1] if r in PR.PRELUDE))
    spare = [r for r in ('V1', 'S1', 'M1', 'V0', 'S0', 'M0', 'T1', 'T0') if r not in used][0]
    names = used + [spare]
    X = UTPM(np.array(xdata, copy=True))
    base = dict((r, np.array(PR.PRELUDE[r](X).data, copy=True)) for r in names)
    v = dict((r, dense(base[r].shape, seed, 31 + k)) for k, r in enumerate(names))
    try:
        big = PR.Split(dict((r, UTPM(np.concatenate([base[r], v[r]]))) for r in names))
        low = PR.Split(dict((r, UTPM(np.concatenate([base[r], np.zeros_like(v[r])]))) for r in names))
        _, rb = PR.run(prog, big)
        _, r0 = PR.run(prog, low)
    except Exception as e:
        raise Outcome('forward-fails', last_line(e))
    try:
        cg = CGraph()
        F = dict((r, Function(UTPM(base[r].copy()))) for r in names)
        y, regs = PR.run(prog, PR.Split(F))
        cg.trace_off()
    except Exception as e:
        Function.cgraph = None
        raise Outcome('untraceable', last_line(e))
    if not isinstance(y, Function) or not isinstance(y.x, UTPM):
        raise Outcome('nonutpm-out', type(getattr(y, 'x', y)).__name__)
    deps, keys, skipped, shared = [], [], 0, 0
    for k in range(len(prog) - 1, -1, -1):          # the final result first
        f = regs['r%d' % k]
        if not isinstance(f, Function) or not isinstance(f.x, UTPM) or np.iscomplexobj(f.x.data):
            if k == len(prog) - 1:
                raise Outcome('complex-out')
            continue
        if any(f is g for g in deps):
            skipped += 1           # the same node (a buffer returned again after an in-place write): listed once
            continue
        if any(np.shares_memory(f.x.data, g.x.data) for g in deps) or any(np.shares_memory(f.x.data, F[r].x.data) for r in names):
            shared += 1            # a dependent that is a view of another dependent / of an independent: kept
        if not isinstance(rb['r%d' % k], UTPM):
            continue
        deps.append(f)
        keys.append('r%d' % k)
    deps.append(F[spare])
    keys.append(spare)
    cg.independentFunctionList = [F[r] for r in names]
    cg.dependentFunctionList = list(deps)
    ybars = [UTPM(dense(f.x.data.shape, seed, 71 + k)) for k, f in enumerate(deps)]
    ycopies = [yb.data.copy() for yb in ybars]
    try:
        cg.pullback(ybars)
    except Exception as e:
        raise Outcome(classify_pullback_exception(e), last_line(e))
    lhs = np.zeros((D, P))
    rhs = np.zeros((D, P))
    maj = np.zeros((D, P))
    for r in names:
        xb = F[r].xbar
        if not isinstance(xb, UTPM) or xb.data.shape != base[r].shape:
            raise Outcome('crash', 'xbar of independent %s is %s %s' % (r, type(xb).__name__, getattr(getattr(xb, 'data', None), 'shape', None)))
        a, m = pairing(xb.data, v[r], D, P)
        lhs += a
        maj += m
    for key, yb in zip(keys, ycopies):
        Jv = v[spare] if key == spare else (rb[key].data[D:] - r0[key].data[D:])
        a, m = pairing(yb, np.real(Jv), D, P)
        rhs += a
        maj += m
    err = np.abs(lhs - rhs) / (1.0 + maj)
    info = {'independents': names, 'dependents': keys, 'dependents_sharing_memory': shared}
    if not np.all(np.isfinite(err)):
        return False, float('inf'), dict(info, reason='non-finite adjoint')
    w = float(err.max())
    if w > tol:
        d, p = np.unravel_index(np.argmax(err), err.shape)
        return False, w, dict(info, order=int(d), direction=int(p), lhs=float(lhs[d, p]), rhs=float(rhs[d, p]))
    return True, w, None


def check_basis(prog, xdata, tol=1e-8):
    """Full Taylor-Jacobian operator: every basis seed e_i t^a against every basis direction e_j t^b
    (P must be 1 in xdata).  Compares xbar_(i,a)[d-b, j] with (J e_j t^b)[d-a, i] for all d."""
    D, P = xdata.shape[:2]
    assert P == 1
    NX = xdata.shape[2]
    # forward: all directions e_j t^b packed along P
    KV = NX * D
    xp = np.concatenate([xdata] * KV, axis=1)
    v = np.zeros((D, KV, NX))
    for j in range(NX):
        for b in range(D):
            v[b, j * D + b, j] = 1.0
    try:
        Jv, y0 = jv_forward(prog, xp, v)        # (D, KV) + out
    except Outcome:
        raise
    except Exception as e:
        raise Outcome('forward-fails', last_line(e))
    if np.iscomplexobj(y0) and np.abs(np.imag(y0)).max() > 0:
        raise Outcome('complex-out')
    oshape = Jv.shape[2:]
    M = int(np.prod(oshape, dtype=int))
    KS = M * D
    xs = np.concatenate([xdata] * KS, axis=1)

    def seeds(shp, dt):
        s = np.zeros((D, KS, M))
        for i in range(M):
            for a in range(D):
                s[a, i * D + a, i] = 1.0
        return s.reshape((D, KS) + tuple(shp[2:]))
    xbar, ydata, ybar, cg = reverse(prog, xs, seeds)       # (D, KS, NX)
    Jv = np.real(Jv).reshape(D, KV, M)
    worst = 0.0
    detail = None
    scale = 1.0 + max(np.abs(xbar).max(), np.abs(Jv).max())
    for i in range(M):
        for a in range(D):
            for j in range(NX):
                for b in range(D):
                    for d in range(max(a, b), D):
                        l = xbar[d - b, i * D + a, j]
                        r = Jv[d - a, j * D + b, i]
                        e = abs(l - r) / scale
                        if not (e <= worst):
                            worst = e if e == e else float('inf')
                            detail = {'out_index': i, 'seed_order': a, 'in_index': j, 'dir_order': b, 'order': d,
                                      'reverse': float(l), 'forward': float(r)}
    return (worst <= tol), float(worst), (detail if worst > tol else None)
