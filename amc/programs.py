"""Instruction set and straight-line program interpreter.

A program is a list of instructions [template_name, [register refs]]; the single independent is a
1-D `x` of length NX.  The same instruction list runs on a plain ndarray ("what running the program
directly yields"), on a UTPM (forward mode) and on a Function wrapping either (recording).
Register refs: 'S0','S1' (scalars x[0],x[1]), 'V0','V1' (x[0:3], x[3:6]), 'M0','M1'
(reshape(x[3:12],(3,3)), reshape(x[0:9],(3,3))) - obtained through traced getitem/reshape, which are
themselves under test - or 'r<k>' = result of instruction k.  The program's output is the result of
its last instruction.

Typing is dynamic: a template declares the coarse types of its operands (S scalar, V (3,), M (3,3),
A = any) and a sequence is type-correct iff NumPy executes it at the menu point; the result type is
taken from the shape NumPy returns.  Domain guards (`dom`) keep every intermediate inside the domain
of smoothness with a margin; a program that leaves it at some base point is skipped and counted.
"""
import operator
import numpy as np

from . import env  # noqa: F401  (forces the import path)
import algopy
from algopy import UTPM, Function, CGraph

sp = algopy.special
N = 3
NX = 12

cV = np.array([1.0, 2.0, 3.0])
cC = np.array([[1.0], [2.0], [3.0]])
cM = np.arange(1.0, 10.0).reshape(3, 3) / 4.0
cI = np.eye(3)
cD = np.diag([0.0, 3.0, 7.0])
# general-matrix adapter: entries of the prelude matrices are positive (so that log, sqrt, ... stay in their
# domain), which makes them nearly rank one; linear-algebra templates act on r + cK, which is well conditioned,
# has well separated singular values and needs row pivoting in LU.
cK = np.array([[0.0, 1.5, 0.0], [0.0, 0.0, -2.5], [3.5, 0.0, 0.0]])


def G(r):
    return r + cK


class OutOfDomain(Exception):
    pass


class Tpl(object):
    __slots__ = ('name', 'ins', 'f', 'dom', 'tags', 'mut', 'ret')

    def __init__(self, name, ins, f, dom=None, tags=(), mut=False, ret=None):
        self.name = name
        self.ins = tuple(ins)
        self.f = f
        self.dom = dom
        self.tags = frozenset(tags)
        self.mut = mut          # first operand must be a mutable buffer and is written
        self.ret = ret          # None: result of f ; 0: operand 0 (after an in-place write)


TEMPLATES = {}


def T(name, ins, f, dom=None, tags=(), mut=False, ret=None):
    assert name not in TEMPLATES, name
    TEMPLATES[name] = Tpl(name, ins, f, dom, tags, mut, ret)


def _amin(*vals):
    return min(float(np.min(np.abs(v))) for v in vals)


def away0(i, m=0.1):
    return lambda *a: _amin(a[i]) > m


def pos(i, m=0.1):
    return lambda *a: float(np.min(a[i])) > m


def inside(i, lo, hi):
    return lambda *a: float(np.min(a[i])) > lo and float(np.max(a[i])) < hi


def wellcond(i, c=40.0):
    def g(*a):
        m = np.asarray(a[i], dtype=float)
        if m.ndim != 2:
            return True
        return np.linalg.cond(m) < c
    return g


def gcond(*a):
    m = np.asarray(a[0], dtype=float)
    if m.shape != (3, 3):
        return False
    return np.linalg.cond(m + cK) < 30


def both(*gs):
    return lambda *a: all(g(*a) for g in gs)


# ---------------------------------------------------------------- arithmetic
_ops = [('add', operator.add), ('sub', operator.sub), ('mul', operator.mul), ('div', operator.truediv)]
for nm, o in _ops:
    T('%s(A,A)' % nm, 'AA', o, dom=away0(1) if nm == 'div' else None, tags=('core', 'poly') if nm != 'div' else ('core',))
    for cn, c in [('2.0', 2.0), ('cV', cV), ('cC', cC)]:
        T('%s(A,%s)' % (nm, cn), 'A', (lambda r, o=o, c=c: o(r, c)), tags=('core', 'poly'))
        T('%s(%s,A)' % (nm, cn), 'A', (lambda r, o=o, c=c: o(c, r)), dom=away0(0) if nm == 'div' else None,
          tags=('core', 'poly') if nm != 'div' else ('core',))
T('neg(A)', 'A', operator.neg, tags=('core', 'poly'))
T('add(0,A)', 'A', lambda r: 0 + r, tags=('core', 'poly', 'buf'))        # a snapshot: NumPy semantics give a copy
T('mul(1,A)', 'A', lambda r: 1 * r, tags=('core', 'poly', 'buf'))
for k in [0, 1, 2, 3, -1, -2, 0.5, 2.5]:
    if isinstance(k, float):
        d = pos(0)
    elif k < 0:
        d = away0(0)
    else:
        d = None
    T('pow(A,%s)' % k, 'A', (lambda r, k=k: r ** k), dom=d, tags=('core', 'poly') if k in (0, 1, 2, 3) else ('core',))

# exponent that is itself a traced value (scalar register / array of the same type): x**y = exp(log(x)*y)
for _ty in 'SVM':
    T('pow(%s,S)' % _ty, _ty + 'S', (lambda r, s: r ** s), dom=pos(0), tags=('core',))
T('pow(A,A)', 'AA', (lambda r, s: r ** s), dom=pos(0), tags=('core',))

# ---------------------------------------------------------------- elementary / special functions
_un = {
    'exp': None, 'expm1': None, 'log': pos(0), 'log1p': pos(0, -0.8), 'sqrt': pos(0), 'sin': None, 'cos': None,
    'tan': inside(0, -1.3, 1.3), 'square': None, 'reciprocal': away0(0), 'absolute': away0(0), 'sign': away0(0),
    'negative': None, 'arcsin': inside(0, -0.9, 0.9), 'arccos': inside(0, -0.9, 0.9), 'arctan': None, 'sinh': None,
    'cosh': None, 'tanh': None, 'conjugate': None,
}
for fn, d in _un.items():
    T('%s(A)' % fn, 'A', (lambda r, fn=fn: getattr(algopy, fn)(r)), dom=d, tags=('elem',))
# dawsn: F' = 1 - 2 x F cancels for large |x| (relative loss ~ x^2 eps per order, in forward mode as well): the oracle's
# tolerance is meaningful for moderate arguments only
_sp = {'erf': None, 'erfi': inside(0, -6.0, 6.0), 'dawsn': inside(0, -8.0, 8.0), 'logit': inside(0, 0.1, 0.9), 'expit': None, 'gammaln': pos(0, 0.2),
       'psi': pos(0, 0.2)}
for fn, d in _sp.items():
    T('%s(A)' % fn, 'A', (lambda r, fn=fn: getattr(sp, fn)(r)), dom=d, tags=('elem',))
T('polygamma(1,A)', 'A', lambda r: sp.polygamma(1, r), dom=pos(0, 0.2), tags=('elem',))
T('hyperu(1.5,0.5,A)', 'A', lambda r: sp.hyperu(1.5, 0.5, r), dom=pos(0, 0.2), tags=('elem',))
# parameters handed in as (0-d) NumPy arrays that the caller keeps - they are constants of the recorded node
cHa = np.array(1.5)
cHb = np.array(0.5)
T('hyperu(arr a,arr b,A)', 'A', lambda r: sp.hyperu(cHa, cHb, r), dom=pos(0, 0.2), tags=('elem',))
T('polygamma(arr 1,A)', 'A', lambda r: sp.polygamma(np.array(1), r), dom=pos(0, 0.2), tags=('elem',))
T('clip(0.4,0.8,A)', 'A', lambda r: sp.botched_clip(0.4, 0.8, r),
  dom=lambda r: _amin(np.asarray(r) - 0.4, np.asarray(r) - 0.8) > 0.03, tags=('elem',))
T('minimum(A,A)', 'AA', algopy.minimum, dom=lambda a, b: _amin(np.asarray(a) - np.asarray(b)) > 0.03, tags=('elem',))
T('maximum(A,A)', 'AA', algopy.maximum, dom=lambda a, b: _amin(np.asarray(a) - np.asarray(b)) > 0.03, tags=('elem',))
T('real(A)', 'A', algopy.real, tags=('elem',))
T('imag(A)', 'A', algopy.imag, tags=('elem',))

# ---------------------------------------------------------------- views, reshape, transpose
_vviews = {'[0]': 0, '[-1]': -1, '[::-1]': slice(None, None, -1), '[1:]': slice(1, None), '[None]': None,
           '[...]': Ellipsis, '[::2]': slice(None, None, 2)}
for k, ix in _vviews.items():
    T('V' + k, 'V', (lambda r, ix=ix: r[ix]), tags=('core', 'poly', 'view'))
_mviews = dict(_vviews)
_mviews.update({'[:,0]': (slice(None), 0), '[0,:]': (0, slice(None)), '[:,:1]': (slice(None), slice(None, 1)),
                '[0,1]': (0, 1), '[::2,::-1]': (slice(None, None, 2), slice(None, None, -1)),
                '[1:,:2]': (slice(1, None), slice(None, 2)), '[:,None,1]': (slice(None), None, 1)})
for k, ix in _mviews.items():
    T('M' + k, 'M', (lambda r, ix=ix: r[ix]), tags=('core', 'poly', 'view'))
T('M.T', 'M', lambda r: r.T, tags=('core', 'poly', 'view'))
T('transpose(A)', 'A', algopy.transpose, tags=('core', 'poly', 'view'))
T('reshape(A,-1)', 'A', lambda r: algopy.reshape(r, (int(np.prod(np.shape(r))),)), tags=('core', 'poly', 'view'))
T('reshape(V,(3,1))', 'V', lambda r: algopy.reshape(r, (3, 1)), tags=('core', 'poly', 'view'))
T('M.reshape((1,9))', 'M', lambda r: r.reshape((1, 9)), tags=('core', 'poly', 'view'))

# ---------------------------------------------------------------- three-dimensional operands (type T = (2,2,3))
for ax in [None, 0, 1, 2, -1, -2, -3]:
    T('sum(T,%s)' % ax, 'T', (lambda r, ax=ax: algopy.sum(r, axis=ax)), tags=('core', 'poly'))
for k, ix in {'[0]': 0, '[:,1]': (slice(None), 1), '[...,0]': (Ellipsis, 0), '[1,::-1]': (1, slice(None, None, -1)), '[:,:,1:]': (slice(None), slice(None), slice(1, None))}.items():
    T('T' + k, 'T', (lambda r, ix=ix: r[ix]), tags=('core', 'poly', 'view'))
# negative integers behind an Ellipsis / newaxis (the axis a negative index refers to is not its position in the index tuple)
for k, ix in {'[...,-1]': (Ellipsis, -1), '[...,-3]': (Ellipsis, -3), '[-1,...,-2]': (-1, Ellipsis, -2), '[None,...,-1]': (None, Ellipsis, -1),
              '[...,-2,:]': (Ellipsis, -2, slice(None)), '[-2]': -2, '[:,-1,-3:]': (slice(None), -1, slice(-3, None))}.items():
    T('T' + k, 'T', (lambda r, ix=ix: r[ix]), tags=('core', 'poly', 'view'))
for k, ix in {'[...,-1]': (Ellipsis, -1), '[None,-1]': (None, -1), '[-1,...]': (-1, Ellipsis), '[None,...,-2]': (None, Ellipsis, -2)}.items():
    T('M' + k, 'M', (lambda r, ix=ix: r[ix]), tags=('core', 'poly', 'view'))
T('dot(T,V)', 'TV', algopy.dot, tags=('core', 'poly'))
T('dot(T,M)', 'TM', algopy.dot, tags=('core', 'poly'))
T('dot(T,cV)', 'T', lambda r: algopy.dot(r, cV), tags=('core', 'poly'))
# advanced (list) indexing: a copy, not a view.  The properties speak of BASIC indexing only, so these templates are used
# for recording/replay values (C05) and excluded from the reverse-mode enumerations (tag 'fancy').
T('V[[0,2]]', 'V', lambda r: r[[0, 2]], tags=('fancy',))
T('M[[0,2]]', 'M', lambda r: r[[0, 2]], tags=('fancy',))
T('T[[1,0]]', 'T', lambda r: r[[1, 0]], tags=('fancy',))

# ---------------------------------------------------------------- reductions
for ax in [None, 0, 1, -1, -2]:
    T('sum(M,%s)' % ax, 'M', (lambda r, ax=ax: algopy.sum(r, axis=ax)), tags=('core', 'poly'))
for ax in [None, 0, -1]:
    T('sum(V,%s)' % ax, 'V', (lambda r, ax=ax: algopy.sum(r, axis=ax)), tags=('core', 'poly'))
T('A.sum()', 'A', lambda r: r.sum(), tags=('core', 'poly'))
T('prod(V)', 'V', algopy.prod, tags=('core', 'poly'))
T('trace(M)', 'M', algopy.trace, tags=('core', 'poly'))
T('trace(wide)', 'M', lambda r: algopy.trace(r[:2]), tags=('core', 'poly'))
T('trace(tall)', 'M', lambda r: algopy.trace(r[:, :2]), tags=('core', 'poly'))

# ---------------------------------------------------------------- dot / outer
for a, b in ['VV', 'MV', 'VM', 'MM']:
    T('dot(%s,%s)' % (a, b), a + b, algopy.dot, tags=('core', 'poly'))
for nm, ins, f in [('dot(M,cV)', 'M', lambda r: algopy.dot(r, cV)), ('dot(cV,M)', 'M', lambda r: algopy.dot(cV, r)),
                   ('dot(M,cM)', 'M', lambda r: algopy.dot(r, cM)), ('dot(cM,M)', 'M', lambda r: algopy.dot(cM, r)),
                   ('dot(V,cV)', 'V', lambda r: algopy.dot(r, cV)), ('dot(cV,V)', 'V', lambda r: algopy.dot(cV, r)),
                   ('dot(cM,V)', 'V', lambda r: algopy.dot(cM, r)), ('dot(V,cM)', 'V', lambda r: algopy.dot(r, cM)),
                   ('dot(M,c23T)', 'M', lambda r: algopy.dot(r, cM[:, :2])), ('dot(c23,M)', 'M', lambda r: algopy.dot(cM[:2], r))]:
    T(nm, ins, f, tags=('core', 'poly'))
T('outer(V,V)', 'VV', algopy.outer, tags=('core', 'poly'))
T('outer(V,cV)', 'V', lambda r: algopy.outer(r, cV), tags=('core', 'poly'))
T('outer(cV,V)', 'V', lambda r: algopy.outer(cV, r), tags=('core', 'poly'))
T('outer(V,V[:2])', 'VV', lambda a, b: algopy.outer(a, b[:2]), tags=('poly',))

# ---------------------------------------------------------------- linear algebra
T('inv(G(M))', 'M', lambda r: algopy.inv(G(r)), dom=gcond, tags=('linalg',))
T('solve(G(M),M)', 'MM', lambda a, b: algopy.solve(G(a), b), dom=gcond, tags=('linalg',))
T('solve(G(M),cM)', 'M', lambda r: algopy.solve(G(r), cM), dom=gcond, tags=('linalg',))
T('solve(cM+I,M)', 'M', lambda r: algopy.solve(cM + cI, r), tags=('linalg',))
T('solve(G(M),V[:,None])', 'MV', lambda a, b: algopy.solve(G(a), algopy.reshape(b, (3, 1))), dom=gcond, tags=('linalg',))
T('det(G(M))', 'M', lambda r: algopy.det(G(r)), dom=gcond, tags=('linalg',))
T('det(M)', 'M', algopy.det, dom=lambda r: abs(np.linalg.det(np.asarray(r, dtype=float))) > 1e-3 and np.linalg.cond(np.asarray(r, dtype=float)) < 1e3, tags=('linalg',))
T('logdet(spd(M))', 'M', lambda r: algopy.logdet(algopy.dot(r, r.T) + cI), tags=('linalg',))
# non-symmetric argument with positive determinant (rows of the general-matrix adapter reversed)
T('logdet(G(M)[::-1])', 'M', lambda r: algopy.logdet(G(r)[::-1]), dom=lambda r: np.linalg.det((np.asarray(r, dtype=float) + cK)[::-1]) > 1.0 and gcond(r), tags=('linalg',))
T('diag(M)', 'M', algopy.diag, tags=('linalg', 'poly'))
T('diag(V)', 'V', algopy.diag, tags=('linalg', 'poly'))
T('triu(M)', 'M', algopy.triu, tags=('linalg', 'poly'))
T('tril(M)', 'M', algopy.tril, tags=('linalg', 'poly'))
for u in 'FLU':
    T('symvec(M,%s)' % u, 'M', (lambda r, u=u: algopy.symvec(r, u)), tags=('linalg',))
T('vecsym(V)', 'V', algopy.vecsym, tags=('linalg',))
for reps in [2, (2,), (2, 1), (1, 2), (2, 2)]:
    T('tile(M,%s)' % (reps,), 'M', (lambda r, reps=reps: algopy.tile(r, reps)), tags=('linalg',))
    T('tile(V,%s)' % (reps,), 'V', (lambda r, reps=reps: algopy.tile(r, reps)), tags=('linalg',))


def _symadapt(r):
    return r + r.T + cD


def _gap_ok(r):
    if np.shape(r) != (3, 3):
        return False
    w = np.linalg.eigvalsh(np.asarray(r) + np.asarray(r).T + cD)
    return float(np.min(np.diff(w))) > 0.3


def _sv_ok(sel):
    def g(r):
        m = np.asarray(r, dtype=float)
        if m.shape != (3, 3):
            return False
        s = np.linalg.svd(sel(m + cK), compute_uv=False)
        return float(np.min(np.abs(np.diff(s)))) > 0.15 and float(s.min()) > 0.15
    return g


def _fullrank(sel):
    def g(r):
        m = np.asarray(r, dtype=float)
        if m.shape != (3, 3):
            return False
        s = np.linalg.svd(sel(m + cK), compute_uv=False)
        return float(s.min()) > 0.1 and float(s.max() / s.min()) < 40
    return g


_sq = lambda m: m
_tall = lambda m: m[:, :2]
_wide = lambda m: m[:2]
for i in (0, 1):
    T('qr(G(M))[%d]' % i, 'M', (lambda r, i=i: algopy.qr(G(r))[i]), dom=_fullrank(_sq), tags=('decomp',))
    T('qr(tall)[%d]' % i, 'M', (lambda r, i=i: algopy.qr(G(r)[:, :2])[i]), dom=_fullrank(_tall), tags=('decomp',))
    T('qr(wide)[%d]' % i, 'M', (lambda r, i=i: algopy.qr(G(r)[:2])[i]), dom=_fullrank(lambda m: m[:2, :2]), tags=('decomp',))
    T('qr_full(tall)[%d]' % i, 'M', (lambda r, i=i: algopy.qr_full(G(r)[:, :2])[i]), dom=_fullrank(_tall), tags=('decomp',))
    T('eigh(sym(M))[%d]' % i, 'M', (lambda r, i=i: algopy.eigh(_symadapt(r))[i]), dom=_gap_ok, tags=('decomp',))
    T('eig(sym(M))[%d]' % i, 'M', (lambda r, i=i: algopy.eig(_symadapt(r))[i]), dom=_gap_ok, tags=('decomp', 'D1only'))
for i in (0, 1, 2):
    T('lu(G(M))[%d]' % i, 'M', (lambda r, i=i: algopy.lu(G(r))[i]), dom=gcond, tags=('decomp',))
    T('svd(G(M))[%d]' % i, 'M', (lambda r, i=i: algopy.svd(G(r))[i]), dom=_sv_ok(_sq), tags=('decomp',))
    T('svd(wide)[%d]' % i, 'M', (lambda r, i=i: algopy.svd(G(r)[:2])[i]), dom=_sv_ok(_wide), tags=('decomp',))
    T('svd(tall)[%d]' % i, 'M', (lambda r, i=i: algopy.svd(G(r)[:, :2])[i]), dom=_sv_ok(_tall), tags=('decomp',))
T('cholesky(spd(M))', 'M', lambda r: algopy.cholesky(algopy.dot(r, r.T) + cI), tags=('decomp',))
T('real(fft(M))', 'M', lambda r: algopy.real(algopy.fft.fft(r)), tags=('fft',))
T('imag(fft(M,axis=0))', 'M', lambda r: algopy.imag(algopy.fft.fft(r, axis=0)), tags=('fft',))
T('real(ifft(fft(M)*M))', 'M', lambda r: algopy.real(algopy.fft.ifft(algopy.fft.fft(r) * r)), tags=('fft',))
T('real(conj(fft(M)))', 'M', lambda r: algopy.real(algopy.conjugate(algopy.fft.fft(r))), tags=('fft',))
# transforms along an axis that is NOT the last one, on non-square operands (axis length != last axis length)
T('real(ifft(wide,axis=0))', 'M', lambda r: algopy.real(algopy.fft.ifft(r[:2], axis=0)), tags=('fft',))
T('real(fft(wide,axis=0))', 'M', lambda r: algopy.real(algopy.fft.fft(r[:2] * r[:2], axis=0)), tags=('fft',))
T('real(ifft(fft(tall,axis=0)*2,axis=0))', 'M', lambda r: algopy.real(algopy.fft.ifft(algopy.fft.fft(r[:, :2], axis=0) * 2.0, axis=0)), tags=('fft',))
T('expm(0.2M)', 'M', lambda r: algopy.expm(r * 0.2), tags=('linalg',))

# ---------------------------------------------------------------- buffers and in-place writes
T('zerosV(A)', 'A', lambda r: algopy.zeros(3, dtype=r), tags=('core', 'poly', 'buf'))
T('zerosM(A)', 'A', lambda r: algopy.zeros((3, 3), dtype=r), tags=('core', 'poly', 'buf'))
T('onesV(A)', 'A', lambda r: algopy.ones(3, dtype=r), tags=('core', 'poly', 'buf'))
T('zeros_like(A)', 'A', algopy.zeros_like, tags=('core', 'poly', 'buf'))
T('ones_like(A)', 'A', algopy.ones_like, tags=('core', 'poly', 'buf'))
T('copy(A)', 'A', lambda r: r * 1.0, tags=('core', 'poly', 'buf'))


def _setter(ix):
    def f(b, r):
        b[ix] = r
        return None
    return f


def _csetter(ix, c):
    def f(b):
        b[ix] = c
        return None
    return f


_vsets = {'[0]': (0, 'S'), '[-1]': (-1, 'S'), '[1:]': (slice(1, None), 'S'), '[...]': (Ellipsis, 'V'),
          '[::2]': (slice(None, None, 2), 'S'), '[:]': (slice(None), 'V')}
for k, (ix, st) in _vsets.items():
    T('setV%s=%s' % (k, st), 'V' + st, _setter(ix), tags=('core', 'poly', 'buf'), mut=True, ret=0)
_msets = {'[0]': (0, 'V'), '[:,0]': ((slice(None), 0), 'V'), '[0,1]': ((0, 1), 'S'), '[...]': (Ellipsis, 'M'),
          '[1:,:2]': ((slice(1, None), slice(None, 2)), 'S'), '[-1]': (-1, 'S')}
for k, (ix, st) in _msets.items():
    T('setM%s=%s' % (k, st), 'M' + st, _setter(ix), tags=('core', 'poly', 'buf'), mut=True, ret=0)
T('setV[0]=2.0', 'V', _csetter(0, 2.0), tags=('core', 'poly', 'buf'), mut=True, ret=0)
T('setV[1:]=cV2', 'V', _csetter(slice(1, None), cV[:2]), tags=('core', 'poly', 'buf'), mut=True, ret=0)
T('setM[0]=cV', 'M', _csetter(0, cV), tags=('core', 'poly', 'buf'), mut=True, ret=0)

# ---------------------------------------------------------------- adapters as instructions + raw linear algebra
# (used by the fan-out programs: the direct argument of the operation is a register that is consumed again later)
T('G(M)', 'M', lambda r: r + cK, tags=('adapter',))
T('sym(M)', 'M', lambda r: r + r.T + cD, tags=('adapter',))
T('spd(M)', 'M', lambda r: algopy.dot(r, r.T) + cI, tags=('adapter',))


def _issym(r):
    m = np.asarray(r, dtype=float)
    return m.ndim == 2 and m.shape[0] == m.shape[1] and np.allclose(m, m.T, atol=1e-12)


def _rawcond(r):
    m = np.asarray(r, dtype=float)
    return m.shape == (3, 3) and np.linalg.cond(m) < 30


def _rawsym(r):
    if not _issym(r):
        return False
    w = np.linalg.eigvalsh(np.asarray(r, dtype=float))
    return float(np.min(np.diff(w))) > 0.3


def _rawspd(r):
    return _issym(r) and float(np.min(np.linalg.eigvalsh(np.asarray(r, dtype=float)))) > 0.3


def _rawsv(r):
    m = np.asarray(r, dtype=float)
    if m.shape != (3, 3):
        return False
    sv = np.linalg.svd(m, compute_uv=False)
    return float(np.min(np.abs(np.diff(sv)))) > 0.15 and float(sv.min()) > 0.15


T('inv(M)raw', 'M', algopy.inv, dom=_rawcond, tags=('raw',))
T('solve(M,M)raw', 'MM', algopy.solve, dom=_rawcond, tags=('raw',))
T('det(M)raw', 'M', algopy.det, dom=_rawcond, tags=('raw',))
T('logdet(M)raw', 'M', algopy.logdet, dom=_rawspd, tags=('raw',))
T('cholesky(M)raw', 'M', algopy.cholesky, dom=_rawspd, tags=('raw',))
T('expm(M)raw', 'M', lambda r: algopy.expm(r * 0.1), dom=None, tags=('raw',))
for i in (0, 1):
    T('qr(M)raw[%d]' % i, 'M', (lambda r, i=i: algopy.qr(r)[i]), dom=_rawcond, tags=('raw',))
    T('eigh(M)raw[%d]' % i, 'M', (lambda r, i=i: algopy.eigh(r)[i]), dom=_rawsym, tags=('raw',))
for i in (0, 1, 2):
    T('lu(M)raw[%d]' % i, 'M', (lambda r, i=i: algopy.lu(r)[i]), dom=_rawcond, tags=('raw',))
    T('svd(M)raw[%d]' % i, 'M', (lambda r, i=i: algopy.svd(r)[i]), dom=_rawsv, tags=('raw',))
RAW_PRE = {'inv(M)raw': 'G(M)', 'solve(M,M)raw': 'G(M)', 'det(M)raw': 'G(M)', 'logdet(M)raw': 'spd(M)', 'cholesky(M)raw': 'spd(M)', 'expm(M)raw': 'G(M)',
           'qr(M)raw[0]': 'G(M)', 'qr(M)raw[1]': 'G(M)', 'eigh(M)raw[0]': 'sym(M)', 'eigh(M)raw[1]': 'sym(M)', 'lu(M)raw[0]': 'G(M)', 'lu(M)raw[1]': 'G(M)',
           'lu(M)raw[2]': 'G(M)', 'svd(M)raw[0]': 'G(M)', 'svd(M)raw[1]': 'G(M)', 'svd(M)raw[2]': 'G(M)'}

PRELUDE = {
    'S0': lambda x: x[0], 'S1': lambda x: x[1],
    'V0': lambda x: x[0:3], 'V1': lambda x: x[3:6],
    'M0': lambda x: algopy.reshape(x[3:12], (3, 3)), 'M1': lambda x: algopy.reshape(x[0:9], (3, 3)),
    'T0': lambda x: algopy.reshape(x, (2, 2, 3)), 'T1': lambda x: algopy.reshape(x[::-1], (2, 2, 3)),
}
PRELUDE_TYPE = {'S0': 'S', 'S1': 'S', 'V0': 'V', 'V1': 'V', 'M0': 'M', 'M1': 'M', 'T0': 'T', 'T1': 'T'}


def shape_type(shape):
    shape = tuple(shape)
    if shape == ():
        return 'S'
    if shape == (3,):
        return 'V'
    if shape == (3, 3):
        return 'M'
    if shape == (2, 2, 3):
        return 'T'
    return 'O'


def value_of(v):
    """plain ndarray behind a register (zeroth coefficient, direction 0 for UTPM)"""
    if isinstance(v, Function):
        v = v.x
    if isinstance(v, UTPM):
        return v.data[0, 0]
    return np.asarray(v)


class Split(object):
    """stands for the input when every prelude register is an argument of its own (several independents)"""
    def __init__(self, regs):
        self.regs = regs


def run(prog, x, guard=False, log=None, before=None):
    """Execute the instruction list on x (ndarray, UTPM or Function; or a Split holding the prelude registers).
    Returns (output, regs).  guard=True (ndarray runs): raise OutOfDomain when a template's domain guard fails."""
    regs = {}

    def get(ref):
        if ref not in regs:
            regs[ref] = x.regs[ref] if isinstance(x, Split) else PRELUDE[ref](x)
        return regs[ref]

    out = None
    for k, (tn, refs) in enumerate(prog):
        t = TEMPLATES[tn]
        if before is not None:
            before(k, regs)
        args = [get(r) for r in refs]
        if guard and t.dom is not None:
            vals = [value_of(a) for a in args]
            try:
                ok = t.dom(*vals)
            except Exception:
                ok = False
            if not ok:
                raise OutOfDomain(tn)
        res = t.f(*args)
        if t.ret is not None:
            res = args[t.ret]
        regs['r%d' % k] = res
        if log is not None:
            log.append(tn)
        out = res
    return out, regs


def record(prog, x0):
    """Record the program on a fresh graph with the independent wrapped around x0 (ndarray or UTPM)."""
    cg = CGraph()
    x = Function(x0)
    y, regs = run(prog, x)
    cg.trace_off()
    cg.independentFunctionList = [x]
    cg.dependentFunctionList = [y]
    return cg, x, y


# ---------------------------------------------------------------- base points and curves
def _search_points():
    """Deterministic menu of base points (length NX, entries in (0.25,0.85), pairwise distinct, away from the
    clip bounds) at which the adapted prelude matrices are well conditioned with well separated singular values
    and eigenvalues; found once by a fixed generator (at most 5000 candidates are drawn)."""
    rng = np.random.default_rng(20260926)
    pts = []
    for _ in range(20000):
        c = []
        while len(c) < NX:
            v = round(float(rng.uniform(0.25, 0.85)), 3)
            if min(abs(v - 0.4), abs(v - 0.8)) < 0.04 or any(abs(v - w) < 0.02 for w in c):
                continue
            c.append(v)
        c = np.array(c)
        ok = True
        for m in (c[3:12].reshape(3, 3), c[0:9].reshape(3, 3)):
            if not (_gap_ok(m) and gcond(m)):
                ok = False
                break
            for sel in (_sq, _tall, _wide):
                ss = np.linalg.svd(sel(m + cK), compute_uv=False)
                if np.min(np.abs(np.diff(ss))) < 0.2 or ss.min() < 0.25:
                    ok = False
        if ok:
            pts.append(c)
        if len(pts) == 4:
            return pts
    raise RuntimeError('base point search failed')


POINTS = _search_points()


def curve(seed, D, P, pts=(0, 1, 2)):
    """Input curve x(t): D coefficients, P directions with DIFFERENT base points (POINTS[pts[p]]),
    higher coefficients pseudo-random dyadic multiples in [-1,1] derived from the seed (the seed
    rotates numbers only, never the enumerated structure)."""
    rng = np.random.default_rng(1000 + seed)
    data = np.zeros((D, P, NX))
    for p in range(P):
        data[0, p] = POINTS[pts[p % len(pts)]]
    data[1:] = np.round(rng.uniform(-1, 1, size=(D - 1, P, NX)) * 64) / 64.0
    return data


def in_domain(prog, base_points):
    """Run on plain ndarrays at each base point with guards on.  Returns None if fine, else a reason."""
    for b in base_points:
        try:
            y, _ = run(prog, np.array(b, dtype=float), guard=True)
        except OutOfDomain as e:
            return 'domain:%s' % e
        except Exception as e:
            return 'numpy-rejects:%s' % type(e).__name__
        yv = np.asarray(y)
        if yv.dtype == object or not np.all(np.isfinite(np.asarray(yv, dtype=complex))):
            return 'nonfinite'
        if np.max(np.abs(yv)) > 1e4 if yv.size else False:
            return 'too-large'
    return None


# ---------------------------------------------------------------- program enumeration
def accepts(tpl_type, reg_type):
    return tpl_type == 'A' and reg_type in 'SVMTO' or tpl_type == reg_type


def _default_prelude(ins):
    """the i-th operand of coarse type t takes prelude register t<i>; 'A' operands take V0 then M0"""
    cnt = {}
    out = []
    for t in ins:
        if t == 'A':
            t2 = ['V', 'M'][cnt.get('A', 0) % 2]
            cnt['A'] = cnt.get('A', 0) + 1
            out.append(t2 + '0')
        else:
            i = cnt.get(t, 0)
            cnt[t] = i + 1
            out.append('%s%d' % (t, i % 2))
    return out


def depth1(names=None, poly=False, fancy=False):
    """every template instantiated on prelude registers; 'A' operands are instantiated on V and on M
    (and on S for binary arithmetic broadcasting)."""
    progs = []
    for tn, t in TEMPLATES.items():
        if names is not None and tn not in names:
            continue
        if t.mut or t.tags & {'adapter', 'raw'} or ('fancy' in t.tags and not fancy):
            continue
        if 'A' in t.ins:
            if len(t.ins) == 1:
                combos = [['V0'], ['M0']] + ([['S0']] if ('core' in t.tags or 'buf' in t.tags) else [])
                if t.tags & {'core', 'elem'}:
                    combos.append(['T0'])
            else:
                combos = [[a, b] for a in ('S0', 'V0', 'M0') for b in ('S1', 'V1', 'M1')]
                combos += [['T0', 'T1'], ['T0', 'V1'], ['S0', 'T1']]
                if not tn.startswith(('add', 'sub', 'mul', 'div')):
                    combos = [['V0', 'V1'], ['M0', 'M1']]
        else:
            combos = [_default_prelude(t.ins)]
        for c in combos:
            progs.append([[tn, c]])
    return progs


def result_info(prog, point=None):
    """(type, mutable) of the last result when run on ndarrays at POINTS[0]; None if NumPy rejects."""
    x = np.array(POINTS[0] if point is None else point, dtype=float)
    try:
        y, regs = run(prog, x)
    except Exception:
        return None
    if y is None:
        return None
    return shape_type(np.shape(y))


def mutable_after(prog):
    """registers that hold a freshly allocated / computed array (safe to write into)"""
    mut = set()
    for k, (tn, refs) in enumerate(prog):
        t = TEMPLATES[tn]
        if 'buf' in t.tags and not t.mut:
            mut.add('r%d' % k)
        if t.mut and refs[0] in mut:
            mut.add('r%d' % k)
        if 'view' in t.tags and refs[0] in mut:
            mut.add('r%d' % k)          # writing through a view of a buffer is allowed
    return mut


def extend(prog, names=None, use_older=False, fancy=False):
    """all type-correct one-instruction extensions of prog whose new instruction consumes the latest
    result in at least one operand; other operands come from the default prelude registers (and, if
    use_older, from the result before)."""
    k = len(prog)
    last = 'r%d' % (k - 1)
    types = {}
    x = np.array(POINTS[0], dtype=float)
    try:
        _, regs = run(prog, x)
    except Exception:
        return []
    for ref, v in regs.items():
        if ref.startswith('r') and v is not None:
            types[ref] = shape_type(np.shape(v))
    if last not in types:
        return []
    mut = mutable_after(prog)
    older = 'r%d' % (k - 2) if (use_older and k >= 2 and ('r%d' % (k - 2)) in types) else None
    out = []
    for tn, t in TEMPLATES.items():
        if names is not None and tn not in names:
            continue
        if names is None and t.tags & {'adapter', 'raw'}:
            continue
        if 'fancy' in t.tags and not fancy:
            continue
        dflt = _default_prelude(t.ins)
        slots = []
        for i, tt in enumerate(t.ins):
            cands = []
            for ref in (last, older):
                if ref is not None and accepts(tt, types[ref]):
                    if i == 0 and t.mut and ref not in mut:
                        continue
                    cands.append(ref)
            if not (i == 0 and t.mut):
                cands.append(dflt[i])
            slots.append(cands)
        import itertools
        for combo in itertools.product(*slots):
            if last not in combo:
                continue
            cand = prog + [[tn, list(combo)]]
            try:
                y, _ = run(cand, np.array(POINTS[0], dtype=float))
            except Exception:
                continue
            if y is None:
                continue
            out.append(cand)
    return out


def fanout_programs():
    """for EVERY operation: [pre -> r0 ; op(r0, ...) -> r1 ; A.sum()<-r1 -> r2 ; mul(A,A)<-r0,r2]: the direct argument r0 of the
    operation is consumed again by a node recorded AFTER the operation (an adjoint that is assigned instead of accumulated
    shows), for all operand types"""
    progs = []
    for tn, t in TEMPLATES.items():
        if t.mut or 'adapter' in t.tags or 'fancy' in t.tags or t.name in ('A.sum()',):
            continue
        if 'raw' in t.tags:
            pres = [(RAW_PRE[tn], 'M0')]
        elif t.ins[0] == 'A':
            pres = [('copy(A)', 'V0'), ('copy(A)', 'M0'), ('copy(A)', 'T0')]
        elif t.ins[0] in 'SVMT':
            pres = [('copy(A)', t.ins[0] + '0')]
        else:
            continue
        for pre, src in pres:
            dflt = _default_prelude(t.ins)
            # the second operand of a binary template comes from the *1 prelude register of its type
            rest = []
            for i, tt in enumerate(t.ins[1:], start=1):
                if tt == 'A':
                    rest.append(src[0] + '1')
                else:
                    rest.append(tt + '1')
            prog = [[pre, [src]], [tn, ['r0'] + rest], ['A.sum()', ['r1']], ['mul(A,A)', ['r0', 'r2']]]
            try:
                y, _ = run(prog, np.array(POINTS[0], dtype=float))
            except Exception:
                continue
            if y is None or not hasattr(y, 'shape'):
                continue
            progs.append(prog)
            # binary operations: the SECOND operand as the fan-out operand, and the same object on both sides
            if len(t.ins) >= 2:
                t1 = t.ins[1] if t.ins[1] in 'SVMT' else src[0]
                first = src[0] + '0' if t.ins[0] == 'A' else t.ins[0] + '0'
                alts = [[['copy(A)', [t1 + '1']], [tn, [first, 'r0'] + rest[1:]], ['A.sum()', ['r1']], ['mul(A,A)', ['r0', 'r2']]]]
                if t.ins[0] == t.ins[1] or (t.ins[0] == 'A' and t.ins[1] == 'A'):
                    alts.append([[pre, [src]], [tn, ['r0', 'r0'] + rest[1:]], ['A.sum()', ['r1']], ['mul(A,A)', ['r0', 'r2']]])
                for alt in alts:
                    try:
                        y, _ = run(alt, np.array(POINTS[0], dtype=float))
                    except Exception:
                        continue
                    if y is not None and hasattr(y, 'shape'):
                        progs.append(alt)
    return progs


SCENARIOS = {
    # hand-written multi-instruction buffer / view scenarios (longer than the enumerated depth)
    'buf1': [['zerosV(A)', ['V0']], ['mul(A,A)', ['S0', 'S1']], ['setV[0]=S', ['r0', 'r1']], ['V[0]', ['r2']],
             ['mul(A,A)', ['r3', 'S1']], ['setV[-1]=S', ['r2', 'r4']], ['setV[0]=2.0', ['r5']], ['sum(V,None)', ['r6']]],
    'buf2': [['zerosM(A)', ['V0']], ['setM[0]=V', ['r0', 'V0']], ['M[0]', ['r1']], ['mul(A,A)', ['r2', 'V1']],
             ['setM[:,0]=V', ['r1', 'r3']], ['dot(M,V)', ['r4', 'V0']]],
    'buf3': [['copy(A)', ['M0']], ['M[0]', ['r0']], ['M[0,1]', ['r0']], ['mul(A,A)', ['r2', 'S0']],
             ['setM[0,1]=S', ['r0', 'r3']], ['mul(A,A)', ['r4', 'r1']]],
    'buf4': [['onesV(A)', ['V0']], ['mul(A,A)', ['r0', 'V0']], ['setV[:]=V', ['r0', 'r1']], ['setV[::2]=S', ['r2', 'S1']],
             ['mul(A,A)', ['r3', 'r3']]],
    'buf5': [['zerosV(A)', ['S0']], ['setV[0]=S', ['r0', 'S0']], ['V[0]', ['r1']], ['sin(A)', ['r2']],
             ['setV[0]=S', ['r1', 'r3']], ['V[0]', ['r4']], ['mul(A,A)', ['r5', 'S1']], ['setV[0]=S', ['r4', 'r6']],
             ['sum(V,None)', ['r7']]],
    'view1': [['mul(A,A)', ['V0', 'V1']], ['V[::-1]', ['r0']], ['mul(A,A)', ['r1', 'r0']], ['sin(A)', ['r2']],
              ['add(A,2.0)', ['r3']], ['mul(A,A)', ['r4', 'V0']], ['sum(V,None)', ['r5']]],
    # aliasing: a view taken BEFORE the buffer is written, read afterwards through the view
    'alias1': [['zerosV(A)', ['V0']], ['V[1:]', ['r0']], ['setV[-1]=S', ['r0', 'S0']], ['setV[0]=S', ['r2', 'S1']],
               ['mul(A,A)', ['r1', 'r1']]],
    # aliasing: write through a view that is never read again; the parent buffer is the dependent
    'alias2': [['copy(A)', ['M0']], ['M[0]', ['r0']], ['setV[0]=S', ['r1', 'S0']], ['mul(A,A)', ['r0', 'r0']]],
    'alias3': [['copy(A)', ['M0']], ['M.T', ['r0']], ['setM[0]=V', ['r1', 'V0']], ['dot(M,V)', ['r0', 'V1']]],
    # snapshot of a buffer taken as 0 + b, buffer overwritten afterwards, both used
    'snap0': [['copy(A)', ['V0']], ['add(0,A)', ['r0']], ['setV[0]=S', ['r0', 'S1']], ['mul(A,A)', ['r1', 'r2']]],
    'snap1': [['zerosV(A)', ['V0']], ['setV[...]=V', ['r0', 'V1']], ['mul(1,A)', ['r1']], ['setV[1:]=S', ['r1', 'S0']], ['sub(A,A)', ['r2', 'r3']]],
    'tan1': [['tan(A)', ['V0']], ['mul(A,A)', ['r0', 'V1']], ['sum(V,None)', ['r1']]],
}

# programs that write into their own ARGUMENT (through a view of the independent); kept apart from SCENARIOS: NumPy reads
# x[0] as a scalar copy while a polynomial element is a view, so intermediate registers differ by design (see C13)
ARG_WRITING = {
    'indep1': [['mul(A,A)', ['S0', 'S1']], ['setV[0]=S', ['V0', 'r0']], ['mul(A,A)', ['r1', 'V1']], ['sum(V,None)', ['r2']]],
    'indep2': [['mul(A,A)', ['V0', 'V1']], ['setM[0]=V', ['M0', 'r0']], ['dot(M,V)', ['r1', 'V0']], ['sum(V,None)', ['r2']]],
    'indep3': [['mul(A,A)', ['V0', 'V1']], ['setV[...]=V', ['V0', 'r0']], ['mul(A,A)', ['r1', 'V1']]],
}


def prog_str(prog):
    return ' ; '.join('%s<-%s' % (tn, ','.join(refs)) for tn, refs in prog)
