"""Generic driver: shard a property's exhaustively enumerated space over worker processes,
aggregate coverage counters, match failures against known_findings.json, confirm new failures by
replay in a fresh process, write evidence/<id>.json and print KNOWN-FINDING / VIOLATION lines.

Exit status: 0 = property held on everything explored (KNOWN-FINDING lines allowed),
             1 = at least one VIOLATION line, 2 = harness error (never a VIOLATION line).
"""
import os
import sys
import json
import time
import hashlib
import argparse
import importlib
import traceback
import subprocess
import multiprocessing

from . import env
from . import findings as _findings

LEVEL = 'model_checking'
MAX_REPORTED = 12          # distinct VIOLATION lines printed (all are counted)
MAX_SAMPLES = 6


def _worker(args):
    modname, unit = args
    mod = importlib.import_module(modname)
    t0 = time.time()
    try:
        res = mod.run_unit(unit)
    except BaseException:
        tb = traceback.format_exc()
        res = {'evals': 0, 'error': tb, 'unit': unit}
    res['wall'] = time.time() - t0
    return res


def _case_id(case):
    return hashlib.sha256(json.dumps(case, sort_keys=True, default=str).encode()).hexdigest()[:12]


def _write_replay(pid, case, detail, sig):
    d = os.path.join(env.VERIF, 'replays')
    os.makedirs(d, exist_ok=True)
    path = os.path.join(d, '%s_%s.json' % (pid, _case_id(case)))
    with open(path, 'w') as f:
        json.dump({'property': pid, 'signature': sig, 'case': case, 'detail': detail}, f, indent=1, default=str)
    return path


def _confirm(pid, path):
    """Re-execute the failing case in a fresh interpreter; the same failure must show again."""
    p = subprocess.run([sys.executable, os.path.join(env.VERIF, 'check'), pid, '--replay', path],
                       stdout=subprocess.PIPE, stderr=subprocess.STDOUT, text=True,
                       env=dict(os.environ, VERIF_NO_CONFIRM='1'))
    return p.returncode, p.stdout


def do_replay(mod, path):
    rec = json.load(open(path))
    case = rec['case'] if 'case' in rec else rec
    fails = mod.replay(case)
    if fails:
        for f in fails[:5]:
            print('REPLAY-FAIL property=%s sig=%s detail=%s' % (mod.ID, f.get('sig'), json.dumps(f.get('detail'), default=str)[:600]))
        print('VIOLATION property=%s replay=%s' % (mod.ID, path))
        return 1
    print('REPLAY-OK property=%s case passes on this tree' % mod.ID)
    return 0


def run(pid, tier, replay=None):
    modname = 'amc.props.' + pid.lower()
    mod = importlib.import_module(modname)
    if replay:
        return do_replay(mod, replay)
    seed = env.seed()
    t0 = time.time()
    units = list(mod.units(tier, seed))
    nj = min(env.jobs(), max(1, len(units)))
    agg = {'evals': 0, 'keys': set(), 'nontrivial': 0, 'fails': {}, 'nfails': 0, 'samples': [], 'counters': {},
           'maxima': {}, 'states': 0, 'transitions': 0, 'traces': 0, 'closed': [], 'errors': [], 'lists': {}}
    if nj > 1:
        ctx = multiprocessing.get_context('fork')
        pool = ctx.Pool(nj)
        it = pool.imap_unordered(_worker, [(modname, u) for u in units], chunksize=1)
    else:
        pool = None
        it = map(_worker, [(modname, u) for u in units])
    known_early = _findings.load(pid)
    failfast_s = float(os.environ.get('VERIF_FAILFAST_S', '240'))
    stopped_early = False
    for res in it:
        # fail fast: once a failure that no known finding explains has been seen and the run is already long (a broken
        # implementation can also be pathologically slow), stop exploring and report what was found
        if failfast_s > 0 and time.time() - t0 > failfast_s and any(
                _findings.match(known_early, sg, fl[0].get('attribs', ())) is None for sg, fl in agg['fails'].items()):
            stopped_early = True
            break
        if 'error' in res:
            agg['errors'].append((res.get('unit'), res['error']))
            continue
        agg['evals'] += res.get('evals', 0)
        agg['keys'].update(res.get('keys', ()))
        agg['nontrivial'] += res.get('nontrivial', 0)
        for k, v in res.get('counters', {}).items():
            agg['counters'][k] = agg['counters'].get(k, 0) + v
        for k, v in res.get('maxima', {}).items():
            if v == v:
                agg['maxima'][k] = max(agg['maxima'].get(k, 0.0), v)
        for k, v in res.get('lists', {}).items():
            agg['lists'].setdefault(k, [])
            for x in v:
                if x not in agg['lists'][k]:
                    agg['lists'][k].append(x)
        agg['states'] += res.get('states', 0)
        agg['transitions'] += res.get('transitions', 0)
        agg['traces'] += res.get('traces', 0)
        if 'closed' in res:
            agg['closed'].append(bool(res['closed']))
        if len(agg['samples']) < MAX_SAMPLES:
            agg['samples'].extend(res.get('samples', [])[:1])
        for f in res.get('fails', []):
            agg['nfails'] += 1
            agg['fails'].setdefault(f['sig'], []).append(f)
    if pool is not None:
        if stopped_early:
            pool.terminate()
        else:
            pool.close()
        pool.join()

    if agg['errors']:
        for u, tb in agg['errors'][:3]:
            print('HARNESS ERROR property=%s unit=%s\n%s' % (pid, json.dumps(u, default=str)[:300], tb))
        return 2

    sigfile = os.path.join(env.VERIF, 'replays', '%s_all_failing_signatures.txt' % pid)
    if os.path.exists(sigfile):
        os.remove(sigfile)
    known = _findings.load(pid)
    violations = []
    known_hit = {}
    for sig in sorted(agg['fails']):
        fl = agg['fails'][sig]
        ent = _findings.match(known, sig, fl[0].get('attribs', ()))
        if ent is not None and not all(_findings.match([ent], sig, f.get('attribs', ())) for f in fl):
            ent = None
        if ent is not None:
            known_hit.setdefault(ent['signature'], [ent, 0])[1] += len(fl)
        else:
            violations.append((sig, fl))
    for sig, (ent, n) in sorted(known_hit.items()):
        print('KNOWN-FINDING: property=%s %s [signature %s, %d failing case(s) this run]' % (pid, ent['what'], sig, n))

    rc = 0
    reported = []
    for sig, fl in violations[:MAX_REPORTED]:
        f = fl[0]
        path = _write_replay(pid, f['case'], f.get('detail'), sig)
        if os.environ.get('VERIF_NO_CONFIRM') != '1':
            code, out = _confirm(pid, path)
            if code != 1:
                print('HARNESS ERROR property=%s failure did not reproduce in a fresh process (sig=%s, rc=%s)\n%s' % (pid, sig, code, out[-800:]))
                return 2
        print('VIOLATION property=%s replay=%s   # sig=%s cases=%d detail=%s' % (
            pid, path, sig, len(fl), json.dumps(f.get('detail'), default=str)[:400]))
        reported.append({'signature': sig, 'replay': path, 'cases': len(fl)})
        rc = 1
    if violations:
        with open(os.path.join(env.VERIF, 'replays', '%s_all_failing_signatures.txt' % pid), 'w') as f:
            for sig, fl in violations:
                f.write('%s\t%d\t%s\n' % (sig, len(fl), json.dumps(fl[0].get('detail'), default=str)[:300]))
    if len(violations) > MAX_REPORTED:
        print('... %d further distinct failing signatures not listed' % (len(violations) - MAX_REPORTED))

    wall = time.time() - t0
    cov = {
        'evaluations': agg['evals'],
        'distinct_nontrivial': len(agg['keys']) + agg['nontrivial'],
        'rule': mod.RULE,
        'samples': agg['samples'][:MAX_SAMPLES] or [{'note': 'no sample recorded'}],
        'exhaustive': not stopped_early,
        'stopped_early_after_violation': stopped_early,
        'units': len(units),
        'failing_cases': agg['nfails'],
        'known_finding_signatures_hit': sorted(known_hit),
        'new_violation_signatures': [r['signature'] for r in reported],
        'bounds': getattr(mod, 'bounds', lambda t: {})(tier),
    }
    if agg['states']:
        cov['states'] = agg['states']
        cov['transitions'] = agg['transitions']
        cov['traces_validated_against_impl'] = agg['traces']
    if agg['closed']:
        cov['state_graphs_closed'] = sum(agg['closed'])
        cov['state_graphs_total'] = len(agg['closed'])
    cov.update({'count_' + k: v for k, v in sorted(agg['counters'].items())})
    cov.update({'max_' + k: v for k, v in sorted(agg['maxima'].items())})
    cov.update({k: v for k, v in sorted(agg['lists'].items())})
    ev = {
        'property_id': pid, 'tier': tier, 'seed': seed, 'level': LEVEL, 'coverage': cov,
        'assumptions': list(getattr(mod, 'ASSUMPTIONS', [])), 'wall_s': round(wall, 2),
        'violations': len(violations),
    }
    # runs against a modified copy of the repository (seeded changes) must not overwrite the evidence of the real tree
    evdir = os.environ.get('VERIF_EVIDENCE_DIR') or os.path.join(env.VERIF, 'evidence')
    os.makedirs(evdir, exist_ok=True)
    with open(os.path.join(evdir, pid + '.json'), 'w') as f:
        json.dump(ev, f, indent=1, default=str)
    extra = ''
    if agg['states']:
        extra = ' states=%d transitions=%d traces=%d' % (agg['states'], agg['transitions'], agg['traces'])
    print('%s tier=%s seed=%d units=%d evaluations=%d distinct_nontrivial=%d%s failing=%d known=%d new=%d wall=%.1fs' % (
        pid, tier, seed, len(units), cov['evaluations'], cov['distinct_nontrivial'], extra, agg['nfails'],
        len(known_hit), len(violations), wall))
    for k, v in sorted(agg['counters'].items()):
        print('   count_%s=%s' % (k, v))
    for k, v in sorted(agg['maxima'].items()):
        if '[' in k:
            continue
        print('   max_%s=%.3g' % (k, v))
    return rc


def main(argv=None):
    ap = argparse.ArgumentParser()
    ap.add_argument('property')
    ap.add_argument('--tier', default=os.environ.get('VERIF_TIER', 'quick'), choices=['quick', 'thorough'])
    ap.add_argument('--replay', default=None)
    a = ap.parse_args(argv)
    sys.exit(run(a.property.upper(), a.tier, a.replay))
