"""Exact multivariate polynomials with Fraction coefficients (reference model for C04 / C09).

A Poly is a dict {exponent tuple: Fraction}.  It implements just enough of the number protocol for NumPy
object arrays, so that the program interpreter can run a polynomial program symbolically: the very same
instruction list executed on an object ndarray of Poly variables yields the program as an exact polynomial
map, from which every partial derivative follows by formal differentiation.
"""
from fractions import Fraction
import numbers

import numpy as np


def _frac(c):
    if isinstance(c, Fraction):
        return c
    if isinstance(c, (int, np.integer)):
        return Fraction(int(c))
    if isinstance(c, (float, np.floating)):
        return Fraction(float(c))      # exact value of the binary float
    raise TypeError(type(c))


class TooBig(Exception):
    pass


MAX_TERMS = 4000


class Poly(object):
    __slots__ = ('n', 't')

    def __init__(self, n, terms=None):
        self.n = n
        self.t = terms if terms is not None else {}

    @staticmethod
    def var(n, i):
        e = [0] * n
        e[i] = 1
        return Poly(n, {tuple(e): Fraction(1)})

    @staticmethod
    def const(n, c):
        c = _frac(c)
        return Poly(n, {(0,) * n: c} if c != 0 else {})

    def _coerce(self, o):
        if isinstance(o, Poly):
            return o
        if isinstance(o, (numbers.Real, np.integer, np.floating, Fraction)):
            return Poly.const(self.n, o)
        return None

    def __add__(self, o):
        o = self._coerce(o)
        if o is None:
            return NotImplemented
        t = dict(self.t)
        for e, c in o.t.items():
            v = t.get(e, 0) + c
            if v == 0:
                t.pop(e, None)
            else:
                t[e] = v
        return Poly(self.n, t)
    __radd__ = __add__

    def __neg__(self):
        return Poly(self.n, {e: -c for e, c in self.t.items()})

    def __pos__(self):
        return self

    def __sub__(self, o):
        o = self._coerce(o)
        if o is None:
            return NotImplemented
        return self + (-o)

    def __rsub__(self, o):
        o = self._coerce(o)
        if o is None:
            return NotImplemented
        return o + (-self)

    def __mul__(self, o):
        o = self._coerce(o)
        if o is None:
            return NotImplemented
        if len(self.t) * len(o.t) > 40 * MAX_TERMS:
            raise TooBig()
        t = {}
        for e1, c1 in self.t.items():
            for e2, c2 in o.t.items():
                e = tuple(a + b for a, b in zip(e1, e2))
                v = t.get(e, 0) + c1 * c2
                if v == 0:
                    t.pop(e, None)
                else:
                    t[e] = v
        if len(t) > MAX_TERMS:
            raise TooBig()
        return Poly(self.n, t)
    __rmul__ = __mul__

    def __truediv__(self, o):
        if isinstance(o, Poly):
            if len(o.t) == 1 and list(o.t)[0] == (0,) * self.n:
                o = list(o.t.values())[0]
            else:
                raise TypeError('division by a non-constant polynomial')
        if isinstance(o, np.ndarray):
            return NotImplemented          # let NumPy broadcast: ndarray.__rtruediv__ divides element-wise
        c = _frac(o)
        return Poly(self.n, {e: v / c for e, v in self.t.items()})

    def __pow__(self, k):
        if isinstance(k, (float, np.floating)) and float(k) == int(k):
            k = int(k)
        if not isinstance(k, (int, np.integer)) or k < 0:
            raise TypeError('only non-negative integer powers')
        r = Poly.const(self.n, 1)
        for _ in range(int(k)):
            r = r * self
        return r

    def degree(self):
        return max([sum(e) for e in self.t] + [0])

    def diff(self, i):
        t = {}
        for e, c in self.t.items():
            if e[i] > 0:
                e2 = list(e)
                e2[i] -= 1
                t[tuple(e2)] = c * e[i]
        return Poly(self.n, t)

    def eval(self, pt):
        """exact value at a point given as Fractions; also returns the majorant sum |c| |x|^e"""
        s = Fraction(0)
        m = Fraction(0)
        for e, c in self.t.items():
            v = c
            for xi, k in zip(pt, e):
                if k:
                    v *= xi ** k
            s += v
            m += abs(v)
        return s, m

    def eval_series(self, xs, D):
        """substitute truncated series xs[i] = [Fraction]*D for the variables; returns (coefficients, majorants)"""
        out = [Fraction(0)] * D
        maj = [Fraction(0)] * D
        cache = {}

        def spow(i, k):
            if (i, k) not in cache:
                if k == 0:
                    cache[(i, k)] = [Fraction(1)] + [Fraction(0)] * (D - 1)
                else:
                    cache[(i, k)] = smul(spow(i, k - 1), xs[i], D)
            return cache[(i, k)]
        for e, c in self.t.items():
            term = [c] + [Fraction(0)] * (D - 1)
            for i, k in enumerate(e):
                if k:
                    term = smul(term, spow(i, k), D)
            for d in range(D):
                out[d] += term[d]
                maj[d] += abs(term[d])
        return out, maj

    def __repr__(self):
        return 'Poly(%d terms, degree %d)' % (len(self.t), self.degree())


def smul(a, b, D):
    out = [Fraction(0)] * D
    for i, ai in enumerate(a):
        if ai == 0:
            continue
        for j in range(D - i):
            if b[j] != 0:
                out[i + j] += ai * b[j]
    return out


def variables(n):
    arr = np.empty(n, dtype=object)
    for i in range(n):
        arr[i] = Poly.var(n, i)
    return arr


def as_poly(n, v):
    return v if isinstance(v, Poly) else Poly.const(n, v)
