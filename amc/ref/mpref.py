"""Arbitrary-precision analytic oracle for compositions f(x(t)).

c_k = f^(k)(x0)/k! comes from mpmath.taylor at 50 digits (numerical differentiation of mpmath's own
implementation of f: no Taylor recurrence, no algopy.nthderiv), cross-checked at 80 digits.  The composition
sum_k c_k (x(t)-x0)^k mod t^D is evaluated for many coefficient patterns at once in extended precision
(numpy longdouble, eps ~ 1e-19), together with the majorant sum_k |c_k| |dx|(t)^k that serves as error scale.
"""
import numpy as np

from .. import env

mp = env.load_mpmath()
_cache = {}


class OracleError(Exception):
    pass


def taylor_coeffs(key, fmp, x0, D):
    """[c_0..c_{D-1}] as mp numbers; key identifies f for caching"""
    k = (key, complex(x0), D)
    if k in _cache:
        return _cache[k]
    pt = mp.mpc(x0) if isinstance(x0, complex) else mp.mpf(x0)
    old = mp.mp.dps
    try:
        mp.mp.dps = 50
        c50 = mp.taylor(fmp, pt, D - 1)
        mp.mp.dps = 80
        c80 = mp.taylor(fmp, pt, D - 1)
        for a, b in zip(c50, c80):
            if abs(a - b) > mp.mpf(10) ** -25 * (1 + abs(b)):
                raise OracleError('mpmath.taylor not self-consistent for %s at %s' % (key, x0))
    finally:
        mp.mp.dps = old
    _cache[k] = c80
    return c80


def to_ld(c, cplx):
    if cplx:
        return np.clongdouble(np.longdouble(float(mp.re(c))) + np.longdouble(float(mp.re(c) - float(mp.re(c))))) + \
            1j * (np.clongdouble(np.longdouble(float(mp.im(c))) + np.longdouble(float(mp.im(c) - float(mp.im(c))))))
    c = mp.re(c)
    hi = float(c)
    return np.longdouble(hi) + np.longdouble(float(c - hi))


def compose(c, X):
    """c: list of D mp coefficients of f at x0; X: (D, K) array of input coefficients (row 0 = x0, ignored).
    Returns (Y, MAJ): (D, K) arrays: Taylor coefficients of f(x(t)) and the majorant, in extended precision."""
    D, K = X.shape
    cplx = np.iscomplexobj(X) or any(mp.im(ci) != 0 for ci in c)
    dt = np.clongdouble if cplx else np.longdouble
    dx = np.array(X, dtype=dt)
    dx[0] = 0
    adx = np.abs(dx).astype(np.longdouble)
    Y = np.zeros((D, K), dtype=dt)
    MAJ = np.zeros((D, K), dtype=np.longdouble)
    pw = np.zeros((D, K), dtype=dt)
    pw[0] = 1
    apw = np.zeros((D, K), dtype=np.longdouble)
    apw[0] = 1
    for k in range(D):
        ck = to_ld(c[k], cplx)
        Y += ck * pw
        MAJ += np.abs(ck) * apw
        if k == D - 1:
            break
        npw = np.zeros_like(pw)
        napw = np.zeros_like(apw)
        for i in range(D):
            for j in range(1, D - i):
                npw[i + j] += pw[i] * dx[j]
                napw[i + j] += apw[i] * adx[j]
        pw, apw = npw, napw
    return Y, MAJ


def grid(D, vals=(0, 1, -0.5, 2, -1.5, 0.75, -2, 3, 1.25, -0.75)):
    """unisolvent tensor grid for coefficients 1..D-1: |A_k| = floor((D-1)/k)+1 values for coefficient k.
    Returns (D-1, K) array."""
    import itertools
    sizes = [(D - 1) // k + 1 for k in range(1, D)]
    if not sizes:
        return np.zeros((0, 1))
    pats = list(itertools.product(*[vals[:s] for s in sizes]))
    return np.array(pats, dtype=float).T


def deviations(D, kmax=2, vals=(1.0, -0.5, 2.0)):
    """all patterns of the higher coefficients 1..D-1 with at most kmax non-zero entries from vals"""
    import itertools
    pats = [np.zeros(D - 1)]
    idx = range(D - 1)
    for k in range(1, kmax + 1):
        for pos in itertools.combinations(idx, k):
            for vs in itertools.product(vals, repeat=k):
                p = np.zeros(D - 1)
                for i, v in zip(pos, vs):
                    p[i] = v
                pats.append(p)
    return np.array(pats).T if D > 1 else np.zeros((0, 1))
