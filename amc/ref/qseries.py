"""Exact truncated power-series arithmetic R[t]/(t^D) (and C[t]/(t^D)) over rationals: reference for C02/C07/C08.

A series of arrays is a list of D NumPy object arrays (same shape) whose elements are Fraction or QC (exact
complex rationals).  All binary operations broadcast with NumPy rules.
"""
from fractions import Fraction

import numpy as np


class QC(object):
    """exact complex rational"""
    __slots__ = ('re', 'im')

    def __init__(self, re, im=0):
        self.re = re if isinstance(re, Fraction) else Fraction(re)
        self.im = im if isinstance(im, Fraction) else Fraction(im)

    @staticmethod
    def of(v):
        if isinstance(v, QC):
            return v
        if isinstance(v, (complex, np.complexfloating)):
            return QC(Fraction(float(v.real)), Fraction(float(v.imag)))
        if isinstance(v, Fraction):
            return QC(v, Fraction(0))
        return QC(Fraction(float(v)) if isinstance(v, (float, np.floating)) else Fraction(int(v)), Fraction(0))

    def __add__(self, o):
        o = QC.of(o)
        return QC(self.re + o.re, self.im + o.im)
    __radd__ = __add__

    def __sub__(self, o):
        o = QC.of(o)
        return QC(self.re - o.re, self.im - o.im)

    def __rsub__(self, o):
        return QC.of(o) - self

    def __neg__(self):
        return QC(-self.re, -self.im)

    def __mul__(self, o):
        o = QC.of(o)
        return QC(self.re * o.re - self.im * o.im, self.re * o.im + self.im * o.re)
    __rmul__ = __mul__

    def __truediv__(self, o):
        o = QC.of(o)
        n = o.re * o.re + o.im * o.im
        return QC((self.re * o.re + self.im * o.im) / n, (self.im * o.re - self.re * o.im) / n)

    def __rtruediv__(self, o):
        return QC.of(o) / self

    def __eq__(self, o):
        o = QC.of(o)
        return self.re == o.re and self.im == o.im

    def __hash__(self):
        return hash((self.re, self.im))

    def __abs__(self):          # 1-norm, exact (used only as an error scale)
        return abs(self.re) + abs(self.im)

    def __complex__(self):
        return complex(float(self.re), float(self.im))

    def __repr__(self):
        return 'QC(%s,%s)' % (self.re, self.im)


def exact(v, cplx=False):
    """exact rational value of a float / int / complex scalar"""
    if cplx or isinstance(v, (complex, np.complexfloating)):
        return QC.of(v)
    if isinstance(v, (int, np.integer)):
        return Fraction(int(v))
    return Fraction(float(v))


def lift(a, cplx=False):
    """object array of exact values from a numeric ndarray / scalar"""
    a = np.asarray(a)
    cplx = cplx or np.iscomplexobj(a)
    out = np.empty(a.shape, dtype=object)
    flat = a.ravel()
    of = out.reshape(-1)
    for i in range(flat.size):
        of[i] = exact(flat[i].item(), cplx)
    return out


def zero_like(a, cplx):
    z = np.empty(np.shape(a), dtype=object)
    z.reshape(-1)[:] = [QC(0) if cplx else Fraction(0)] * z.size
    return z


def absq(a):
    """element-wise absolute value (Fraction) of an object array"""
    f = np.frompyfunc(lambda v: abs(v), 1, 1)
    return f(a)


def tofloat(a, cplx=False):
    a = np.asarray(a, dtype=object)
    if cplx:
        return np.array([complex(v) if isinstance(v, QC) else complex(float(v)) for v in a.ravel()], dtype=complex).reshape(a.shape)
    return np.array([float(v.re) if isinstance(v, QC) else float(v) for v in a.ravel()], dtype=float).reshape(a.shape)


# ---- series of arrays: list of D object arrays
def s_add(a, b):
    return [x + y for x, y in zip(a, b)]


def s_sub(a, b):
    return [x - y for x, y in zip(a, b)]


def s_mul(a, b):
    D = len(a)
    out = []
    for d in range(D):
        acc = a[0] * b[d]
        for c in range(1, d + 1):
            acc = acc + a[c] * b[d - c]
        out.append(acc)
    return out


def s_mul_major(a, b):
    """majorant of the Cauchy product: sum of |a_c| |b_(d-c)|"""
    return s_mul([absq(x) for x in a], [absq(y) for y in b])


def s_div(a, b):
    """q = a / b : q_d = (a_d - sum_{c=1..d} b_c q_(d-c)) / b_0"""
    D = len(a)
    q = []
    for d in range(D):
        acc = a[d]
        for c in range(1, d + 1):
            acc = acc - b[c] * q[d - c]
        q.append(acc / b[0])
    return q


def s_pow_int(a, k):
    assert k >= 0
    D = len(a)
    one = a[0] * 0 + 1
    out = [one] + [a[0] * 0 for _ in range(D - 1)]
    for _ in range(k):
        out = s_mul(out, a)
    return out


def from_utpm_data(data, nb=None):
    """data: (D,P)+shape numeric -> list of D object arrays of shape (P,)+(1,)*pad+shape (pad so that trailing
    dimensions align with an nb-dimensional broadcast partner)"""
    D, P = data.shape[:2]
    shape = data.shape[2:]
    pad = 0 if nb is None else nb - len(shape)
    cplx = np.iscomplexobj(data)
    return [lift(data[d], cplx).reshape((P,) + (1,) * pad + shape) for d in range(D)]


def from_const(c, D, nb=None, cplx=False):
    c = np.asarray(c)
    pad = 0 if nb is None else nb - c.ndim
    c0 = lift(c, cplx or np.iscomplexobj(c)).reshape((1,) + (1,) * pad + c.shape)
    z = zero_like(c0, cplx or np.iscomplexobj(c))
    return [c0] + [z for _ in range(D - 1)]


def stack(series, cplx=False):
    """list of D object arrays (P,)+shape -> float/complex ndarray (D,P)+shape, and keep exact objects"""
    return np.array([tofloat(s, cplx) for s in series])
