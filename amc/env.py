"""Process environment shared by every check: import algopy from the working tree under test.

Nothing here is specific to a property.  The repository under test is $ALGOPY_REPO (default
/repo); site-packages holds a stale copy of algopy, so the import path is forced and verified.
"""
import os
import sys

os.environ.setdefault('OMP_NUM_THREADS', '1')
os.environ.setdefault('OPENBLAS_NUM_THREADS', '1')
os.environ.setdefault('MKL_NUM_THREADS', '1')
os.environ.setdefault('PYTHONHASHSEED', '0')
sys.dont_write_bytecode = True

VERIF = os.path.dirname(os.path.dirname(os.path.abspath(__file__)))
REPO = os.path.abspath(os.environ.get('ALGOPY_REPO', '/repo'))

if sys.path[0] != REPO:
    sys.path.insert(0, REPO)

import warnings
warnings.simplefilter('ignore')

import numpy
numpy.seterr(all='ignore')
import algopy  # noqa: E402

if not os.path.abspath(algopy.__file__).startswith(REPO + os.sep):
    raise SystemExit('HARNESS ERROR: algopy imported from %s, expected under %s' % (algopy.__file__, REPO))


def load_mpmath():
    """mpmath is vendored under /verif/vendor and put on sys.path only AFTER algopy was imported:
    algopy.nthderiv changes its export list when mpmath is importable and the code under test
    must be the baseline configuration."""
    vend = os.path.join(VERIF, 'vendor')
    if vend not in sys.path:
        sys.path.append(vend)
    import mpmath
    return mpmath


def seed():
    try:
        return int(os.environ.get('VERIF_SEED', '0'))
    except ValueError:
        return 0


def jobs():
    try:
        return max(1, int(os.environ.get('VERIF_JOBS', '16')))
    except ValueError:
        return 16
